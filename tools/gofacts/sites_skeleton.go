package main

// Control skeletons -> Juniper.Gen.Skeleton.
//
// The LTS models of stream.Pipe, stream.Batch, stream.Merge, stream.Chan, chans.Merge and
// chans.Replicate hard-wire the control flow *between* the generated select tables, statement lists
// and guards ("TrySend is two non-blocking selects", "Send is one select", "the producer is a loop of
// Next / three-way test / hand-off"). The sites below regenerate that control flow as a list of
// statement kinds, one entry per statement in source order, nested blocks flattened with `{` `}`
// markers, to the full depth of the function:
//
//	assign  incdec  call  call:close  call:panic  send  recv  return  break  continue  goto  var
//	go  defer  (followed by `func {` … `}` when the operand is a function literal)
//	if <shape> {  … } else { … }         shape of the condition: operators kept, operands `_`
//	for {  /  for <shape> {  /  range {   … }
//	select {  case recv:  case send:  default:  … }
//	switch {  case:  default:  … }
//	assign func { … }                   a function literal bound to a variable (opaque where the site
//	                                    says so: `assign func`, its body is then a site of its own)
//
// Identifiers, literals, call targets and operand expressions are normalised away, so renaming a
// variable, re-ordering the arms' *contents* expression-wise or rewriting `a - b` as `b*(-1) + a` is
// invisible here; an added / removed / re-ordered statement, an added early return, an `if` around
// something, a changed condition shape (`a == b && c == d` -> `f(a, b)`) is not. The Lean side pins
// every skeleton with a `decide`d tie lemma that the property theorems use (Props/C10, C10Chan, C11,
// C12: `skeleton_ok` and the per-theorem conjuncts).

import (
	"fmt"
	"go/ast"
	"go/token"
	"sort"
	"strings"
)

// skelCondShape renders the shape of a condition: logical / comparison / arithmetic operators and
// negation are kept, every other operand is `_`.
func skelCondShape(x ast.Expr) string {
	switch n := x.(type) {
	case *ast.ParenExpr:
		return skelCondShape(n.X)
	case *ast.BinaryExpr:
		switch n.Op {
		case token.LAND, token.LOR:
			return skelCondShape(n.X) + n.Op.String() + skelCondShape(n.Y)
		case token.EQL, token.NEQ, token.LSS, token.LEQ, token.GTR, token.GEQ:
			return "_" + n.Op.String() + "_"
		}
		return "_"
	case *ast.UnaryExpr:
		if n.Op == token.NOT {
			return "!" + skelCondShape(n.X)
		}
		return "_"
	}
	return "_"
}

type skelOpts struct {
	// opaqueLits: function literals assigned to variables / started with `go` are rendered as a single
	// token (`assign func`, `go func`) instead of inline; deferred literals stay inline.
	opaqueLits bool
}

func skelFuncLitOf(x ast.Expr) *ast.FuncLit {
	switch n := x.(type) {
	case *ast.FuncLit:
		return n
	case *ast.ParenExpr:
		return skelFuncLitOf(n.X)
	}
	return nil
}

func skelCallLit(call *ast.CallExpr) *ast.FuncLit {
	if call == nil {
		return nil
	}
	return skelFuncLitOf(call.Fun)
}

func skelCallKind(call *ast.CallExpr) string {
	if id, ok := call.Fun.(*ast.Ident); ok {
		switch id.Name {
		case "close", "panic":
			return "call:" + id.Name
		}
	}
	return "call"
}

// skelStmts flattens a statement list into skeleton tokens.
func skelStmts(list []ast.Stmt, o skelOpts, out *[]string) error {
	add := func(s string) { *out = append(*out, s) }
	for _, st := range list {
		switch x := st.(type) {
		case *ast.AssignStmt:
			var lit *ast.FuncLit
			if len(x.Rhs) == 1 {
				lit = skelFuncLitOf(x.Rhs[0])
			}
			recv := false
			if len(x.Rhs) == 1 {
				if u, ok := x.Rhs[0].(*ast.UnaryExpr); ok && u.Op == token.ARROW {
					recv = true
				}
			}
			switch {
			case lit != nil && o.opaqueLits:
				add("assign func")
			case lit != nil:
				add("assign func {")
				if err := skelStmts(lit.Body.List, o, out); err != nil {
					return err
				}
				add("}")
			case recv:
				add("recv")
			default:
				add("assign")
			}
		case *ast.IncDecStmt:
			add("incdec")
		case *ast.DeclStmt:
			add("var")
		case *ast.ExprStmt:
			switch e := x.X.(type) {
			case *ast.CallExpr:
				if lit := skelCallLit(e); lit != nil {
					add("call func {")
					if err := skelStmts(lit.Body.List, o, out); err != nil {
						return err
					}
					add("}")
				} else {
					add(skelCallKind(e))
				}
			case *ast.UnaryExpr:
				if e.Op == token.ARROW {
					add("recv")
				} else {
					add("expr")
				}
			default:
				add("expr")
			}
		case *ast.SendStmt:
			add("send")
		case *ast.ReturnStmt:
			add("return")
		case *ast.BranchStmt:
			add(x.Tok.String())
		case *ast.LabeledStmt:
			add("label")
			if err := skelStmts([]ast.Stmt{x.Stmt}, o, out); err != nil {
				return err
			}
		case *ast.EmptyStmt:
		case *ast.GoStmt, *ast.DeferStmt:
			kw, call := "go", (*ast.CallExpr)(nil)
			if g, ok := x.(*ast.GoStmt); ok {
				call = g.Call
			} else {
				kw, call = "defer", x.(*ast.DeferStmt).Call
			}
			lit := skelCallLit(call)
			switch {
			case lit == nil:
				add(kw)
			case kw == "go" && o.opaqueLits:
				add("go func")
			default:
				add(kw + " func {")
				if err := skelStmts(lit.Body.List, o, out); err != nil {
					return err
				}
				add("}")
			}
		case *ast.BlockStmt:
			add("{")
			if err := skelStmts(x.List, o, out); err != nil {
				return err
			}
			add("}")
		case *ast.IfStmt:
			if err := skelIf(x, o, out); err != nil {
				return err
			}
		case *ast.ForStmt:
			h := "for"
			if x.Init != nil {
				h += " init;"
			}
			if x.Cond != nil {
				h += " " + skelCondShape(x.Cond)
			}
			if x.Post != nil {
				h += " ;post"
			}
			add(h + " {")
			if err := skelStmts(x.Body.List, o, out); err != nil {
				return err
			}
			add("}")
		case *ast.RangeStmt:
			add("range {")
			if err := skelStmts(x.Body.List, o, out); err != nil {
				return err
			}
			add("}")
		case *ast.SelectStmt:
			// the order of the arms of a select has no meaning: render every arm, then emit the arms
			// in a canonical (lexicographic) order so that re-ordering them is invisible
			add("select {")
			var arms [][]string
			for _, cl := range x.Body.List {
				cc := cl.(*ast.CommClause)
				var arm []string
				switch cc.Comm.(type) {
				case nil:
					arm = append(arm, "default:")
				case *ast.SendStmt:
					arm = append(arm, "case send:")
				case *ast.ExprStmt, *ast.AssignStmt:
					arm = append(arm, "case recv:")
				default:
					return fmt.Errorf("unsupported comm clause")
				}
				if err := skelStmts(cc.Body, o, &arm); err != nil {
					return err
				}
				arms = append(arms, arm)
			}
			sort.SliceStable(arms, func(i, j int) bool {
				return strings.Join(arms[i], "\x00") < strings.Join(arms[j], "\x00")
			})
			for _, arm := range arms {
				*out = append(*out, arm...)
			}
			add("}")
		case *ast.SwitchStmt:
			h := "switch"
			if x.Init != nil {
				h += " init;"
			}
			add(h + " {")
			for _, cl := range x.Body.List {
				cc := cl.(*ast.CaseClause)
				if cc.List == nil {
					add("default:")
				} else {
					add("case:")
				}
				if err := skelStmts(cc.Body, o, out); err != nil {
					return err
				}
			}
			add("}")
		case *ast.TypeSwitchStmt:
			add("typeswitch {")
			for _, cl := range x.Body.List {
				cc := cl.(*ast.CaseClause)
				if cc.List == nil {
					add("default:")
				} else {
					add("case:")
				}
				if err := skelStmts(cc.Body, o, out); err != nil {
					return err
				}
			}
			add("}")
		default:
			return fmt.Errorf("skeleton: unsupported statement %T", st)
		}
	}
	return nil
}

func skelIf(x *ast.IfStmt, o skelOpts, out *[]string) error {
	h := "if "
	if x.Init != nil {
		h += "init; "
	}
	*out = append(*out, h+skelCondShape(x.Cond)+" {")
	if err := skelStmts(x.Body.List, o, out); err != nil {
		return err
	}
	for x.Else != nil {
		switch e := x.Else.(type) {
		case *ast.IfStmt:
			h := "} else if "
			if e.Init != nil {
				h += "init; "
			}
			*out = append(*out, h+skelCondShape(e.Cond)+" {")
			if err := skelStmts(e.Body.List, o, out); err != nil {
				return err
			}
			x = e
			continue
		case *ast.BlockStmt:
			*out = append(*out, "} else {")
			if err := skelStmts(e.List, o, out); err != nil {
				return err
			}
		}
		break
	}
	*out = append(*out, "}")
	return nil
}

// skelSite emits `def <name> : List String` = the skeleton of the block selected by sel in fn (""
// = the whole function body).
func skelSite(pkg, fn, name, sel string, o skelOpts) Site {
	return Site{Module: "Skeleton", Pkg: pkg, Func: fn, Name: name, Kind: Custom, Sel: sel,
		Custom: func(c *Ctx, s *Site) (string, error) {
			fd, err := c.FindFunc(s.Pkg, s.Func)
			if err != nil {
				return "", err
			}
			var n ast.Node = fd.Body
			if s.Sel != "" {
				if n, err = c.SelectPath(fd, s.Sel); err != nil {
					return "", err
				}
			}
			if lit, ok := n.(*ast.FuncLit); ok {
				n = lit.Body
			}
			b, ok := n.(*ast.BlockStmt)
			if !ok {
				return "", fmt.Errorf("selector %q does not denote a block or a function literal", s.Sel)
			}
			var toks []string
			if err := skelStmts(b.List, o, &toks); err != nil {
				return "", err
			}
			q := make([]string, len(toks))
			for i, t := range toks {
				q[i] = leanString(t)
			}
			where := s.Func
			if s.Sel != "" {
				where += " " + s.Sel
			}
			return fmt.Sprintf("/-- control skeleton (statement kinds in source order) of `%s` -/\ndef %s : List String := [%s]\n", where, s.Name, strings.Join(q, ", ")), nil
		}}
}

// skelGuardSite emits (into Juniper.Gen.Batch, next to the other facts Model/Batch.lean is defined
// over) the three-way test of the Batch producer's `else if` that decides whether an
// error coming out of `s.Next(bgCtx)` is Batch's own cancellation (Close was called) as a Bool
// function of what the model can know about the error:
//
//	errEq  : err == context.Canceled               (identity)
//	errIs  : errors.Is(err, context.Canceled)      (identity or wrapped)
//	bgEq   : bgCtx.Err() == context.Canceled       (Close has been called)
//	bgDone : bgCtx.Err() != nil
func skelGuardSite() Site {
	return Site{Module: "Batch", Pkg: "stream", Func: "BatchFunc", Name: "prodCancelGuard", Kind: Expr,
		Sel: "funclit[0]/for[0].body/if[1].cond", Type: "Bool",
		Params: []Param{{"errEq", "Bool"}, {"errIs", "Bool"}, {"bgEq", "Bool"}, {"bgDone", "Bool"}},
		Vars: map[string]string{
			"err==context.Canceled":                   "errEq",
			"context.Canceled==err":                   "errEq",
			"errors.Is(err,context.Canceled)":         "errIs",
			"bgCtx.Err()==context.Canceled":           "bgEq",
			"context.Canceled==bgCtx.Err()":           "bgEq",
			"errors.Is(bgCtx.Err(),context.Canceled)": "bgEq",
			"bgCtx.Err()!=nil":                        "bgDone",
		}}
}

func init() {
	const st = "stream"
	const ch = "chans"
	full := skelOpts{}
	opaque := skelOpts{opaqueLits: true}
	register(
		// ---- stream.Pipe / stream.Chan (C10, Pipe clauses of C08)
		skelSite(st, "Pipe", "pipe", "", full),
		skelSite(st, "PipeSender.Send", "send", "", full),
		skelSite(st, "PipeSender.TrySend", "trySend", "", full),
		skelSite(st, "PipeSender.Close", "senderClose", "", full),
		skelSite(st, "pipeStream.Next", "pipeNext", "", full),
		skelSite(st, "pipeStream.Close", "pipeClose", "", full),
		skelSite(st, "chanStream.Next", "chanNext", "", full),
		skelSite(st, "chanStream.Close", "chanClose", "", full),
		// ---- stream.Batch / BatchFunc (C11, Batch clauses of C08 / C09)
		skelSite(st, "Batch", "batch", "", opaque),
		skelSite(st, "BatchFunc", "batchFunc", "", opaque),
		skelSite(st, "BatchFunc", "batchProducer", "funclit[0]", full),
		skelSite(st, "BatchFunc", "batchBatcher", "funclit[1]", opaque),
		skelSite(st, "BatchFunc", "batchFlush", "funclit[1]/funclit[1]", full),
		skelSite(st, "BatchFunc", "batchStopTimer", "funclit[1]/funclit[2]", full),
		skelSite(st, "BatchFunc", "batchStartTimer", "funclit[1]/funclit[3]", full),
		skelSite(st, "batchStream.Next", "batchNext", "", full),
		skelSite(st, "batchStream.Close", "batchClose", "", full),
		skelGuardSite(),
		// ---- stream.Merge (C12, stream.Merge clauses of C08 / C09)
		skelSite(st, "Merge", "streamMerge", "", opaque),
		skelSite(st, "Merge", "streamMergeWorker", "go[0].call/funclit[0]", full),
		skelSite(st, "Merge", "streamMergeCancel", "return[0].result[0]/funclit[0]", full),
		skelSite(st, "mergeStream.Next", "mergeNext", "", full),
		skelSite(st, "mergeStream.Close", "mergeClose", "", full),
		// ---- chans.Merge / Replicate (C12)
		skelSite(ch, "Merge", "chansMerge", "", opaque),
		skelSite(ch, "merge2", "merge2", "", full),
		skelSite(ch, "merge3", "merge3", "", full),
		skelSite(ch, "Replicate", "replicate", "", full),
	)
}
