package main

// container/tree, slot level -> Juniper.Gen.TreeSlots.
// Consumed by Model/BTreeSlots.lean (the "no retained garbage" clause of C03): presence of every
// zeroing / clearing / shifting statement of btree.go, and the index and slice-bound expressions of
// the statements that move keys, values and children between the fixed arrays of the nodes.

import (
	"fmt"
	"go/ast"
)

// treeSlotsSliceBound emits `def name params : Int := <bound>` for the low (high=false) or high bound of the
// slice expression denoted by sel inside fn.
func treeSlotsSliceBound(mod, pkg, fn, name, sel string, high bool, ps []Param, vars map[string]string) Site {
	s := Site{Module: mod, Pkg: pkg, Func: fn, Name: name, Kind: Custom, Sel: sel, Params: ps, Vars: vars,
		Calls: map[string]string{"int": "id", "int8": "id"}}
	s.Custom = func(c *Ctx, s *Site) (string, error) {
		fd, err := c.FindFunc(s.Pkg, s.Func)
		if err != nil {
			return "", err
		}
		n, err := c.SelectPath(fd, s.Sel)
		if err != nil {
			return "", err
		}
		se, ok := n.(*ast.SliceExpr)
		if !ok {
			return "", fmt.Errorf("selector %q is not a slice expression", s.Sel)
		}
		b, which := se.Low, "low"
		if high {
			b, which = se.High, "high"
		}
		if b == nil {
			return "", fmt.Errorf("slice expression %s has no %s bound", c.Pretty(se), which)
		}
		env := &trEnv{c: c, s: s, locals: map[string]string{}, consts: map[string]string{}}
		t, ty, err := env.tr(b)
		if err != nil {
			return "", err
		}
		if ty == "Bool" {
			return "", fmt.Errorf("slice bound %s is not a number", c.Pretty(b))
		}
		return fmt.Sprintf("/-- %s bound of `%s` in `%s` (%s) -/\ndef %s%s : Int := %s\n", which, c.Pretty(se), s.Func, s.Sel, s.Name, paramsText(s.Params), t), nil
	}
	return s
}

func init() {
	const pkg = "container/tree"
	const mod = "TreeSlots"
	I := func(names ...string) []Param {
		var ps []Param
		for _, n := range names {
			ps = append(ps, Param{n, "Int"})
		}
		return ps
	}
	e := func(fn, name, sel string, typ string, ps []Param, vars map[string]string) Site {
		return Site{Module: mod, Pkg: pkg, Func: fn, Name: name, Kind: Expr, Sel: sel, Type: typ, Params: ps, Vars: vars,
			Calls: map[string]string{"int8": "id", "int": "id"}}
	}
	present := func(fn, name, sel, text string) Site {
		return Site{Module: mod, Pkg: pkg, Func: fn, Name: name, Kind: Present, Sel: sel, Text: text}
	}
	lo := func(fn, name, sel string, ps []Param, vars map[string]string) Site {
		return treeSlotsSliceBound(mod, pkg, fn, name, sel, false, ps, vars)
	}
	hi := func(fn, name, sel string, ps []Param, vars map[string]string) Site {
		return treeSlotsSliceBound(mod, pkg, fn, name, sel, true, ps, vars)
	}
	xn := map[string]string{"int(x.n)": "n"}
	currN := map[string]string{"int(curr.n)": "n"}
	leftN := map[string]string{"int(left.n)": "ln", "left.n": "ln"}
	rightN := map[string]string{"int(right.n)": "rn", "right.n": "rn"}
	parN := map[string]string{"int(parent.n)": "pn"}
	idxP := map[string]string{"idxInParent": "idx"}
	ie := map[string]string{"i": "i", "a.extraIdx": "e"}

	register(
		// --- the two array primitives -------------------------------------------------------
		present("insertOne", "insertOneShifts", "", "copy(a[idx+1:], a[idx:])"),
		present("insertOne", "insertOneWrites", "", "a[idx] = x"),
		lo("insertOne", "insertOneDstLo", "call[copy][0].arg[0]", I("idx"), map[string]string{"idx": "idx"}),
		lo("insertOne", "insertOneSrcLo", "call[copy][0].arg[1]", I("idx"), map[string]string{"idx": "idx"}),
		present("removeOne", "removeOneShifts", "", "copy(a[idx:], a[idx+1:])"),
		present("removeOne", "removeOneZeroesLast", "", "a[len(a)-1] = zero"),

		// --- insertIntoLeaf ------------------------------------------------------------------
		hi("btree.insertIntoLeaf", "leafInsertKeysHi", "call[insertOne][0].arg[0]", I("n"), xn),
		hi("btree.insertIntoLeaf", "leafInsertValuesHi", "call[insertOne][1].arg[0]", I("n"), xn),
		present("btree.insertIntoLeaf", "leafInsertBumpsN", "", "x.n++"),

		// --- Delete, leaf branch ---------------------------------------------------------------
		present("btree.Delete", "leafRemoveShiftsKeys", "", "removeOne(curr.keys[:int(curr.n)], idx)"),
		present("btree.Delete", "leafRemoveShiftsValues", "", "removeOne(curr.values[:int(curr.n)], idx)"),
		present("btree.Delete", "leafRemoveDecN", "if[2].body", "curr.n--"),

		// --- removeRightmost ---------------------------------------------------------------------
		e("btree.removeRightmost", "removeRightmostIdx", "index[curr.keys][0].idx", "Int", I("n"), currN),
		present("btree.removeRightmost", "removeRightmostZeroesKey", "", "curr.keys[int(curr.n)-1] = zeroK"),
		present("btree.removeRightmost", "removeRightmostZeroesValue", "", "curr.values[int(curr.n)-1] = zeroV"),
		present("btree.removeRightmost", "removeRightmostDecN", "", "curr.n--"),

		// --- overfill: amalgam view, Clear calls, separator insert into the parent -----------------
		e("amalgam1.Key", "amalgamKeyIsExtra", "if[0].cond", "Bool", I("i", "e"), ie),
		e("amalgam1.Key", "amalgamKeyShifts", "if[1].cond", "Bool", I("i", "e"), ie),
		present("amalgam1.Key", "amalgamKeyDec", "", "i--"),
		e("amalgam1.Value", "amalgamValueIsExtra", "if[0].cond", "Bool", I("i", "e"), ie),
		e("amalgam1.Value", "amalgamValueShifts", "if[1].cond", "Bool", I("i", "e"), ie),
		present("amalgam1.Value", "amalgamValueDec", "", "i--"),
		e("amalgam1.Child", "amalgamChildIsExtra", "if[0].cond", "Bool", I("i", "e"), ie),
		e("amalgam1.Child", "amalgamChildShifts", "if[1].cond", "Bool", I("i", "e"), ie),
		present("amalgam1.Child", "amalgamChildDec", "", "i--"),
		e("btree.overfill", "overfillRightKeysCond", "for[1].cond", "Bool", I("i", "rn"), map[string]string{"i": "i", "int(right.n)": "rn"}),
		e("btree.overfill", "overfillRightChildrenCond", "for[2].cond", "Bool", I("i", "rn"), map[string]string{"i": "i", "int(right.n)": "rn"}),
		e("btree.overfill", "overfillLeftKeysFrom", "assign[i][2].rhs", "Int", I("ln"), leftN),
		e("btree.overfill", "overfillLeftChildrenFrom", "assign[i][3].rhs", "Int", I("ln"), leftN),
		present("btree.overfill", "overfillClearsKeys", "", "xslices.Clear(left.keys[int(left.n):])"),
		present("btree.overfill", "overfillClearsValues", "", "xslices.Clear(left.values[int(left.n):])"),
		present("btree.overfill", "overfillClearsChildren", "", "xslices.Clear(left.children[int(left.n)+1:])"),
		// (the bounds of the three Clear calls are part of the statement texts above: a positional
		// selector would make the neighbouring facts unextractable when one of the calls is dropped)
		hi("btree.overfill", "parentInsertKeysHi", "call[insertOne][0].arg[0]", I("pn"), parN),
		hi("btree.overfill", "parentInsertValuesHi", "call[insertOne][1].arg[0]", I("pn"), parN),
		hi("btree.overfill", "parentInsertChildrenHi", "call[insertOne][2].arg[0]", I("pn"), parN),
		e("btree.overfill", "parentInsertSepIdx", "call[insertOne][0].arg[1]", "Int", I("idx"), idxP),
		e("btree.overfill", "parentInsertValueIdx", "call[insertOne][1].arg[1]", "Int", I("idx"), idxP),
		e("btree.overfill", "parentInsertChildIdx", "call[insertOne][2].arg[1]", "Int", I("idx"), idxP),
		present("btree.overfill", "parentInsertBumpsN", "if[3].body", "parent.n++"),

		// --- mergeTwo ------------------------------------------------------------------------------
		e("btree.mergeTwo", "mergeSepKeyIdx", "index[left.keys][0].idx", "Int", I("ln"), leftN),
		e("btree.mergeTwo", "mergeSepValueIdx", "index[left.values][0].idx", "Int", I("ln"), leftN),
		lo("btree.mergeTwo", "mergeKeysDst", "call[copy][0].arg[0]", I("ln"), leftN),
		hi("btree.mergeTwo", "mergeKeysSrcHi", "call[copy][0].arg[1]", I("rn"), rightN),
		lo("btree.mergeTwo", "mergeValuesDst", "call[copy][1].arg[0]", I("ln"), leftN),
		hi("btree.mergeTwo", "mergeValuesSrcHi", "call[copy][1].arg[1]", I("rn"), rightN),
		lo("btree.mergeTwo", "mergeChildrenDst", "call[copy][2].arg[0]", I("ln"), leftN),
		hi("btree.mergeTwo", "mergeChildrenSrcHi", "call[copy][2].arg[1]", I("rn"), rightN),
		e("btree.mergeTwo", "mergeAddN", "assign[left.n][0].rhs", "Int", I("rn"), rightN),
		present("btree.mergeTwo", "mergeRemovesSepKey", "", "removeOne(parent.keys[:int(parent.n)], idxInParent)"),
		present("btree.mergeTwo", "mergeRemovesSepValue", "", "removeOne(parent.values[:int(parent.n)], idxInParent)"),
		present("btree.mergeTwo", "mergeRemovesRightChild", "", "removeOne(parent.children[:int(parent.n)+1], idxInParent+1)"),
		present("btree.mergeTwo", "mergeParentDecN", "", "parent.n--"),
		present("btree.mergeTwo", "mergeZeroesRight", "", "right.n = 0"),

		// --- rotateRight (steal from the left sibling) --------------------------------------------------
		e("btree.rotateRight", "rotateRightChildIdx", "index[left.children][0].idx", "Int", I("ln"), leftN),
		e("btree.rotateRight", "rotateRightMaxIdx", "index[left.keys][0].idx", "Int", I("ln"), leftN),
		present("btree.rotateRight", "rotateRightZeroesKey", "", "left.keys[left.n-1] = zeroK"),
		present("btree.rotateRight", "rotateRightZeroesValue", "", "left.values[left.n-1] = zeroV"),
		present("btree.rotateRight", "rotateRightZeroesChild", "", "left.children[left.n] = nil"),
		present("btree.rotateRight", "rotateRightDecLeft", "", "left.n--"),
		present("btree.rotateRight", "rotateRightInsertsKey", "", "insertOne(right.keys[:], 0, oldSepK)"),
		present("btree.rotateRight", "rotateRightInsertsValue", "", "insertOne(right.values[:], 0, oldSepV)"),
		present("btree.rotateRight", "rotateRightInsertsChild", "", "insertOne(right.children[:], 0, child)"),
		present("btree.rotateRight", "rotateRightIncRight", "", "right.n++"),

		// --- rotateLeft (steal from the right sibling) -----------------------------------------------------
		present("btree.rotateLeft", "rotateLeftShiftsKeys", "", "removeOne(right.keys[:], 0)"),
		present("btree.rotateLeft", "rotateLeftShiftsValues", "", "removeOne(right.values[:], 0)"),
		present("btree.rotateLeft", "rotateLeftShiftsChildren", "", "removeOne(right.children[:], 0)"),
		e("btree.rotateLeft", "rotateLeftKeyIdx", "index[left.keys][0].idx", "Int", I("ln"), leftN),
		e("btree.rotateLeft", "rotateLeftValueIdx", "index[left.values][0].idx", "Int", I("ln"), leftN),
		e("btree.rotateLeft", "rotateLeftChildIdx", "index[left.children][0].idx", "Int", I("ln"), leftN),
		e("btree.rotateLeft", "rotateLeftSepIdx", "index[right.parent.keys][0].idx", "Int", I("idx"), idxP),
		present("btree.rotateLeft", "rotateLeftDecRight", "", "right.n--"),
		present("btree.rotateLeft", "rotateLeftIncLeft", "", "left.n++"),
	)
}
