package main

// container/tree (+ xsort.LessCompare) -> Juniper.Gen.Tree.
// Consumed by Model/BTree.lean (C01, C02, C03).

import (
	"fmt"
	"go/ast"
	"go/token"
	"strings"
)

func init() {
	const pkg = "container/tree"
	const mod = "Tree"
	I := func(names ...string) []Param {
		var ps []Param
		for _, n := range names {
			ps = append(ps, Param{n, "Int"})
		}
		return ps
	}
	B := func(names ...string) []Param {
		var ps []Param
		for _, n := range names {
			ps = append(ps, Param{n, "Bool"})
		}
		return ps
	}
	cat := func(a ...[]Param) []Param {
		var ps []Param
		for _, x := range a {
			ps = append(ps, x...)
		}
		return ps
	}
	// e: an expression site; typ "Bool" or "Int"
	e := func(fn, name, sel, typ string, ps []Param, vars map[string]string) Site {
		return Site{Module: mod, Pkg: pkg, Func: fn, Name: name, Kind: Expr, Sel: sel, Type: typ, Params: ps, Vars: vars,
			Calls: map[string]string{"int8": "id", "int": "id"}}
	}
	present := func(fn, name, sel, text string) Site {
		return Site{Module: mod, Pkg: pkg, Func: fn, Name: name, Kind: Present, Sel: sel, Text: text}
	}
	cIs := map[string]string{"c": "c"}
	in := map[string]string{"c.i": "i", "int(c.curr.n)": "n"}
	cmpK := map[string]string{"c.t.compare(k,c.k)": "c"}

	register(
		Site{Module: mod, Pkg: pkg, Func: "branchFactor", Name: "branchFactor", Kind: Const},
		Site{Module: mod, Pkg: pkg, Func: "maxKVs", Name: "maxKVs", Kind: Const},
		Site{Module: mod, Pkg: pkg, Func: "minKVs", Name: "minKVs", Kind: Const},
		Site{Module: mod, Pkg: pkg, Name: "keysLen", Kind: Custom, Custom: arrayLen("node", "keys", "keysLen")},
		Site{Module: mod, Pkg: pkg, Name: "valuesLen", Kind: Custom, Custom: arrayLen("node", "values", "valuesLen")},
		Site{Module: mod, Pkg: pkg, Name: "childrenLen", Kind: Custom, Custom: arrayLen("node", "children", "childrenLen")},
		// node.full
		e("node.full", "full", "return[0].result[0]", "Bool", I("n"), map[string]string{"int(x.n)": "n", "len(x.keys)": "keysLen"}),
		// Put
		Site{Module: mod, Pkg: pkg, Func: "btree.Put", Name: "putOverwriteOnly", Kind: Custom,
			Custom: allOf(stmtsAre("btree.Put", "for[0]/if[0].body", []string{"curr.values[idx]=v", "return"}))},
		e("btree.Put", "putInsertsDirect", "if[2].cond", "Bool", B("isFull"), map[string]string{"curr.full()": "isFull"}),
		present("btree.Put", "putBumpsGen", "", "t.gen++"),
		present("btree.Put", "putBumpsSize", "", "t.size++"),
		// Delete
		present("btree.Delete", "deleteBumpsGen", "", "t.gen++"),
		present("btree.Delete", "deleteDecSize", "", "t.size--"),
		Site{Module: mod, Pkg: pkg, Func: "btree.Delete", Name: "deleteMissReturnsFirst", Kind: Custom,
			Custom: allOf(stmtsAre("btree.Delete", "for[0]/if[1].body", []string{"return"}))},
		e("btree.Delete", "deleteLeafDone", "if[3].cond", "Bool", cat(I("n"), B("stole")), map[string]string{"curr.n": "n", "t.steal(curr)": "stole"}),
		e("btree.Delete", "deleteInnerDone", "if[4].cond", "Bool", B("leafNil", "stole"), map[string]string{"leaf==nil": "leafNil", "t.steal(leaf)": "stole"}),
		e("btree.Delete", "deleteMerges", "if[5].cond", "Bool", I("leafId", "rootId"), map[string]string{"leaf": "leafId", "t.root": "rootId"}),
		// removeRightmost
		e("btree.removeRightmost", "removeRightmostUnder", "if[0].cond", "Bool", I("n"), map[string]string{"curr.n": "n"}),
		present("btree.removeRightmost", "removeRightmostZeroesKey", "", "curr.keys[int(curr.n)-1] = zeroK"),
		present("btree.removeRightmost", "removeRightmostZeroesValue", "", "curr.values[int(curr.n)-1] = zeroV"),
		// steal / siblings / merge / mergeTwo
		e("btree.steal", "stealRight", "if[0].cond", "Bool", cat(B("hasRight"), I("rn")), map[string]string{"right!=nil": "hasRight", "right.n": "rn"}),
		e("btree.steal", "stealLeft", "if[1].cond", "Bool", cat(B("hasLeft"), I("ln")), map[string]string{"left!=nil": "hasLeft", "left.n": "ln"}),
		// which helper is called on which nodes (the model executes what is written here)
		Site{Module: mod, Pkg: pkg, Name: "treeCallTypes", Kind: Custom, Custom: func(c *Ctx, s *Site) (string, error) { return treeCallTypes, nil }},
		Site{Module: mod, Pkg: pkg, Func: "btree.steal", Name: "stealRightCall", Kind: Custom,
			Custom: nodeCall("btree.steal", "if[0].body", []string{"returntrue"}, "stealRightCall")},
		Site{Module: mod, Pkg: pkg, Func: "btree.steal", Name: "stealLeftCall", Kind: Custom,
			Custom: nodeCall("btree.steal", "if[1].body", []string{"returntrue"}, "stealLeftCall")},
		e("btree.siblings", "hasLeftSibling", "if[1].cond", "Bool", I("idx"), map[string]string{"idx": "idx"}),
		e("btree.siblings", "hasRightSibling", "if[2].cond", "Bool", I("idx", "pn"), map[string]string{"idx": "idx", "int(x.parent.n)": "pn"}),
		e("btree.siblings", "leftSiblingIdx", "index[x.parent.children][0].idx", "Int", I("idx"), map[string]string{"idx": "idx"}),
		e("btree.siblings", "rightSiblingIdx", "index[x.parent.children][1].idx", "Int", I("idx"), map[string]string{"idx": "idx"}),
		e("btree.merge", "mergeIntoLeft", "if[0].cond", "Bool", cat(B("hasLeft"), I("ln")), map[string]string{"left!=nil": "hasLeft", "left.n": "ln"}),
		Site{Module: mod, Pkg: pkg, Func: "btree.merge", Name: "mergeLeftCall", Kind: Custom,
			Custom: nodeCall("btree.merge", "if[0].body", nil, "mergeLeftCall")},
		Site{Module: mod, Pkg: pkg, Func: "btree.merge", Name: "mergeRightCall", Kind: Custom,
			Custom: nodeCall("btree.merge", "if[0].else", nil, "mergeRightCall")},
		present("btree.mergeTwo", "mergeZeroesRight", "", "right.n = 0"),
		e("btree.mergeTwo", "mergeRootCheck", "if[1].cond", "Bool", I("parentId", "rootId"), map[string]string{"parent": "parentId", "t.root": "rootId"}),
		e("btree.mergeTwo", "mergeRootEmpty", "if[2].cond", "Bool", I("pn"), map[string]string{"parent.n": "pn"}),
		// root collapse: the two statements of `if parent.n == 0 { t.root = left; left.parent = nil }`
		present("btree.mergeTwo", "mergeCollapseSetsRoot", "if[2].body", "t.root = left"),
		present("btree.mergeTwo", "mergeCollapseClearsParent", "if[2].body", "left.parent = nil"),
		e("btree.mergeTwo", "mergeCascades", "if[3].cond", "Bool", cat(I("pn"), B("stole")), map[string]string{"parent.n": "pn", "t.steal(parent)": "stole"}),
		// rotateRight / rotateLeft / removeOne zeroing
		present("btree.rotateRight", "rotateRightZeroesKey", "", "left.keys[left.n-1] = zeroK"),
		present("btree.rotateRight", "rotateRightZeroesValue", "", "left.values[left.n-1] = zeroV"),
		present("btree.rotateRight", "rotateRightZeroesChild", "", "left.children[left.n] = nil"),
		e("btree.rotateRight", "rotateRightSepIdx", "index[left.parent.keys][0].idx", "Int", I("idxInParent"), map[string]string{"idxInParent": "idxInParent"}),
		e("btree.rotateLeft", "rotateLeftSepIdx", "index[right.parent.keys][0].idx", "Int", I("idxInParent"), map[string]string{"idxInParent": "idxInParent"}),
		present("removeOne", "removeOneZeroesLast", "", "a[len(a)-1] = zero"),
		// overfill / amalgam
		e("amalgam1.Len", "amalgamLen", "return[0].result[0]", "Int", nil, nil),
		e("btree.overfill", "medianIdx", "assign[medianIdx][0].rhs", "Int", nil, map[string]string{"all.Len()": "amalgamLen"}),
		e("btree.overfill", "rightN", "assign[right.n][0].rhs", "Int", nil, map[string]string{"all.Len()": "amalgamLen", "medianIdx": "medianIdx"}),
		e("btree.overfill", "leftN", "assign[left.n][0].rhs", "Int", nil, map[string]string{"medianIdx": "medianIdx"}),
		e("btree.overfill", "rightFirstIdx", "call[all.Key][1].arg[0]", "Int", I("i"), map[string]string{"medianIdx": "medianIdx", "i": "i"}),
		e("btree.overfill", "rightFirstChildIdx", "call[all.Child][0].arg[0]", "Int", I("i"), map[string]string{"medianIdx": "medianIdx", "i": "i"}),
		present("btree.overfill", "overfillClearsKeys", "", "xslices.Clear(left.keys[int(left.n):])"),
		present("btree.overfill", "overfillClearsValues", "", "xslices.Clear(left.values[int(left.n):])"),
		present("btree.overfill", "overfillClearsChildren", "", "xslices.Clear(left.children[int(left.n)+1:])"),
		e("btree.overfill", "overfillParentHasRoom", "if[3].cond", "Bool", B("isFull"), map[string]string{"parent.full()": "isFull"}),
		e("btree.overfill", "parentSepIdx", "call[insertOne][0].arg[1]", "Int", I("idxInParent"), map[string]string{"idxInParent": "idxInParent"}),
		e("btree.overfill", "parentRightIdx", "call[insertOne][2].arg[1]", "Int", I("idxInParent"), map[string]string{"idxInParent": "idxInParent"}),
		e("newAmalgam1", "amalgamLess", "funclit[0]/if[0].cond", "Bool", I("c"), map[string]string{"compare(extraKey,keys[i])": "c"}),
		e("amalgam1.Child", "amalgamExtraChildIdx", "if[0].cond", "Bool", I("i", "extraIdx"), map[string]string{"i": "i", "a.extraIdx": "extraIdx"}),
		e("btree.insertIntoLeaf", "insertLess", "for[0]/if[0].cond", "Bool", I("c"), map[string]string{"t.compare(k,x.keys[idx])": "c"}),
		// searchNode
		e("btree.searchNode", "searchLess", "if[0].cond", "Bool", I("c"), cIs),
		e("btree.searchNode", "searchEq", "if[1].cond", "Bool", I("c"), cIs),
		// First / Last / SeekFirst / SeekLast / find
		e("btree.First", "firstEmpty", "if[0].cond", "Bool", I("rootN"), map[string]string{"t.root.n": "rootN"}),
		e("btree.Last", "lastEmpty", "if[0].cond", "Bool", I("rootN"), map[string]string{"t.root.n": "rootN"}),
		e("cursor.SeekFirst", "seekFirstEmpty", "if[0].cond", "Bool", I("rootN"), map[string]string{"c.t.root.n": "rootN"}),
		e("cursor.SeekLast", "seekLastEmpty", "if[0].cond", "Bool", I("rootN"), map[string]string{"c.t.root.n": "rootN"}),
		e("cursor.SeekLast", "seekLastIdx", "assign[c.i][0].rhs", "Int", I("n"), in),
		e("cursor.find", "findEmpty", "if[0].cond", "Bool", I("rootN"), map[string]string{"c.t.root.n": "rootN"}),
		e("cursor.find", "findBacksUp", "if[3].cond", "Bool", I("idx", "n"), map[string]string{"idx": "idx", "int(curr.n)": "n"}),
		present("cursor.find", "findBackUpDec", "if[3].body", "idx--"),
		present("cursor.seek", "seekSetsGen", "", "c.gen = c.t.gen"),
		present("cursor.SeekFirst", "seekFirstSetsGen", "", "c.gen = c.t.gen"),
		present("cursor.SeekLast", "seekLastSetsGen", "", "c.gen = c.t.gen"),
		// the four seeks
		e("cursor.SeekLastLess", "seekLastLessStep", "if[1].cond", "Bool", I("c"), cmpK),
		e("cursor.SeekLastLessOrEqual", "seekLastLessOrEqualStep", "if[1].cond", "Bool", I("c"), cmpK),
		e("cursor.SeekFirstGreaterOrEqual", "seekFirstGreaterOrEqualStep", "if[1].cond", "Bool", I("c"), cmpK),
		e("cursor.SeekFirstGreater", "seekFirstGreaterStep", "if[1].cond", "Bool", I("c"), cmpK),
		Site{Module: mod, Pkg: pkg, Func: "cursor.SeekLastLess", Name: "seekStepCalls", Kind: Custom,
			Custom: allOf(
				stmtsAre("cursor.SeekLastLess", "if[1].body", []string{"c.Prev()"}),
				stmtsAre("cursor.SeekLastLessOrEqual", "if[1].body", []string{"c.Prev()"}),
				stmtsAre("cursor.SeekFirstGreaterOrEqual", "if[1].body", []string{"c.Next()"}),
				stmtsAre("cursor.SeekFirstGreater", "if[1].body", []string{"c.Next()"}))},
		// lost
		e("cursor.lost", "lost", "return[0].result[0]", "Bool", cat(I("cgen", "tgen"), B("hasCurr"), I("i", "n", "c")),
			map[string]string{"c.gen": "cgen", "c.t.gen": "tgen", "c.curr!=nil": "hasCurr", "c.i": "i", "int(c.curr.n)": "n",
				"c.t.compare(c.k,c.curr.keys[c.i])": "c"}),
		// cursor.Next / Prev
		Site{Module: mod, Pkg: pkg, Func: "cursor.Next", Name: "cursorLostReseeks", Kind: Custom,
			Custom: allOf(
				stmtsAre("cursor.Next", "if[0].body", []string{"c.SeekFirstGreater(c.k)", "return"}),
				stmtsAre("cursor.Prev", "if[0].body", []string{"c.SeekLastLess(c.k)", "return"}))},
		e("cursor.Next", "nextLeafStay", "if[3].cond", "Bool", I("i", "n"), in),
		e("cursor.Next", "nextInnerDescend", "if[4].cond", "Bool", I("i", "n"), in),
		e("cursor.Next", "nextChildIdx", "index[c.curr.children][0].idx", "Int", I("i"), in),
		e("cursor.Next", "nextClimbIdx", "assign[c.i][1].rhs", "Int", I("idx"), map[string]string{"idx": "idx"}),
		e("cursor.Next", "nextClimbStop", "if[6].cond", "Bool", I("i", "n"), in),
		e("cursor.Prev", "prevLeafStay", "if[3].cond", "Bool", I("i"), in),
		e("cursor.Prev", "prevInnerDescend", "if[4].cond", "Bool", I("i"), in),
		e("cursor.Prev", "prevChildIdx", "index[c.curr.children][0].idx", "Int", I("i"), in),
		e("cursor.Prev", "prevLeafLast", "assign[c.i][0].rhs", "Int", I("n"), in),
		e("cursor.Prev", "prevClimbIdx", "assign[c.i][1].rhs", "Int", I("idx"), map[string]string{"idx": "idx"}),
		e("cursor.Prev", "prevClimbStop", "if[6].cond", "Bool", I("i"), in),
		// forward/backward iterator: which seek when lost
		Site{Module: mod, Pkg: pkg, Func: "forwardIterator.Next", Name: "iterReseeks", Kind: Custom,
			Custom: allOf(
				stmtsAre("forwardIterator.Next", "if[1].body", []string{"iter.c.SeekFirstGreaterOrEqual(iter.c.Key())"}),
				stmtsAre("backwardIterator.Next", "if[1].body", []string{"iter.c.SeekLastLessOrEqual(iter.c.Key())"}))},
		Site{Module: mod, Pkg: pkg, Func: "forwardIterator.Next", Name: "iterReadsThenSteps", Kind: Custom,
			Custom: allOf(
				stmtsInOrder("forwardIterator.Next", []string{"k:=iter.c.Key()", "v:=iter.c.valueUnchecked()", "iter.c.Next()"}),
				stmtsInOrder("backwardIterator.Next", []string{"k:=iter.c.Key()", "v:=iter.c.valueUnchecked()", "iter.c.Prev()"}))},
		// the far bound of Range / RangeReverse: the iterator's own sticky cut-off (`done`, `inRange`), tested on the
		// key before the value is read
		e("forwardIterator.Next", "fwdChecksDone", "if[0].cond", "Bool", B("done"), map[string]string{"iter.done": "done"}),
		e("backwardIterator.Next", "bwdChecksDone", "if[0].cond", "Bool", B("done"), map[string]string{"iter.done": "done"}),
		e("forwardIterator.Next", "fwdStops", "if[3].cond", "Bool", B("hasPred", "inRange"),
			map[string]string{"iter.inRange!=nil": "hasPred", "iter.inRange(k)": "inRange"}),
		e("backwardIterator.Next", "bwdStops", "if[3].cond", "Bool", B("hasPred", "inRange"),
			map[string]string{"iter.inRange!=nil": "hasPred", "iter.inRange(k)": "inRange"}),
		Site{Module: mod, Pkg: pkg, Func: "forwardIterator.Next", Name: "fwdCutoffSticky", Kind: Custom,
			Custom: allOf(
				stmtsAre("forwardIterator.Next", "if[0].body", []string{"returnzero,false"}),
				stmtsAre("forwardIterator.Next", "if[3].body", []string{"iter.done=true", "returnzero,false"}))},
		Site{Module: mod, Pkg: pkg, Func: "backwardIterator.Next", Name: "bwdCutoffSticky", Kind: Custom,
			Custom: allOf(
				stmtsAre("backwardIterator.Next", "if[0].body", []string{"returnzero,false"}),
				stmtsAre("backwardIterator.Next", "if[3].body", []string{"iter.done=true", "returnzero,false"}))},
		// the cut-off test sits between the key read and the value read
		Site{Module: mod, Pkg: pkg, Func: "forwardIterator.Next", Name: "iterStopBeforeValue", Kind: Custom,
			Custom: allOf(
				stmtsInOrder("forwardIterator.Next", []string{"k:=iter.c.Key()", "ifiter.inRange!=nil&&!iter.inRange(k){iter.done=truereturnzero,false}", "v:=iter.c.valueUnchecked()"}),
				stmtsInOrder("backwardIterator.Next", []string{"k:=iter.c.Key()", "ifiter.inRange!=nil&&!iter.inRange(k){iter.done=truereturnzero,false}", "v:=iter.c.valueUnchecked()"}))},
		// the four constructors: a fresh iterator is not cut off; Forward/Backward install no predicate
		Site{Module: mod, Pkg: pkg, Func: "cursor.Forward", Name: "iterCtorsFresh", Kind: Custom,
			Custom: allOf(
				stmtsAre("cursor.Forward", "", []string{"return&forwardIterator[K,V]{c:*c}"}),
				stmtsAre("cursor.ForwardWhile", "", []string{"return&forwardIterator[K,V]{c:*c,inRange:inRange}"}),
				stmtsAre("cursor.Backward", "", []string{"return&backwardIterator[K,V]{c:*c}"}),
				stmtsAre("cursor.BackwardWhile", "", []string{"return&backwardIterator[K,V]{c:*c,inRange:inRange}"}))},
		// Range / RangeReverse tables
		Site{Module: mod, Pkg: pkg, Name: "rangeTypes", Kind: Custom, Custom: func(c *Ctx, s *Site) (string, error) { return rangeTypes, nil }},
		Site{Module: mod, Pkg: pkg, Func: "btree.Range", Name: "rangeSeek", Kind: Custom, Custom: seekTable("btree.Range", 0, "rangeSeek")},
		Site{Module: mod, Pkg: pkg, Func: "btree.Range", Name: "rangeStop", Kind: Custom, Custom: stopTable("btree.Range", 1, "rangeStop")},
		Site{Module: mod, Pkg: pkg, Func: "btree.RangeReverse", Name: "rrangeSeek", Kind: Custom, Custom: seekTable("btree.RangeReverse", 0, "rrangeSeek")},
		Site{Module: mod, Pkg: pkg, Func: "btree.RangeReverse", Name: "rrangeStop", Kind: Custom, Custom: stopTable("btree.RangeReverse", 1, "rrangeStop")},
		// Map / Set are handles that forward
		Site{Module: mod, Pkg: pkg, Name: "mapIsHandle", Kind: Custom, Custom: isHandle("Map", "mapIsHandle")},
		Site{Module: mod, Pkg: pkg, Name: "setIsHandle", Kind: Custom, Custom: isHandle("Set", "setIsHandle")},
		// receiver kinds of the shared object behind a handle (consumed by Model/TreeHandle.lean)
		Site{Module: mod, Pkg: pkg, Name: "btreeRecvIsPtr", Kind: Custom, Custom: recvTable("btree", "btreeRecvIsPtr")},
		Site{Module: mod, Pkg: pkg, Func: "newBtree", Name: "newBtreeReturnsPtr", Kind: Custom, Custom: returnsAddrOf("newBtree", "btree", "newBtreeReturnsPtr")},
		Site{Module: mod, Pkg: pkg, Name: "btreeWritesHeader", Kind: Custom, Custom: headerWriters("btree", "btreeWritesHeader")},
		Site{Module: mod, Pkg: pkg, Name: "mapBodies", Kind: Custom, Custom: bodyTable("Map",
			[]string{"Len", "Put", "Delete", "Get", "Contains", "First", "Last", "Iterate", "Range", "RangeReverse"}, "mapBodies")},
		Site{Module: mod, Pkg: pkg, Name: "setBodies", Kind: Custom, Custom: bodyTable("Set",
			[]string{"Len", "Add", "Remove", "Contains", "First", "Last", "Iterate", "Range", "RangeReverse"}, "setBodies")},
		Site{Module: mod, Pkg: pkg, Name: "ctorBodies", Kind: Custom, Custom: bodyTable("",
			[]string{"NewMap", "NewMapCmp", "NewSet", "NewSetCmp"}, "ctorBodies")},
		Site{Module: mod, Pkg: pkg, Func: "Map.Put", Name: "mapForwards", Kind: Custom, Custom: allOf(
			stmtsAre("Map.Len", "", []string{"returnm.t.size"}),
			stmtsAre("Map.Put", "", []string{"m.t.Put(k,v)"}),
			stmtsAre("Map.Delete", "", []string{"m.t.Delete(k)"}),
			stmtsAre("Map.Get", "", []string{"returnm.t.Get(k)"}),
			stmtsAre("Map.Contains", "", []string{"returnm.t.Contains(k)"}),
			stmtsAre("Map.First", "", []string{"returnm.t.First()"}),
			stmtsAre("Map.Last", "", []string{"returnm.t.Last()"}),
			stmtsAre("Map.Iterate", "", []string{"returnm.Range(Unbounded[K](),Unbounded[K]())"}),
			stmtsAre("Map.Range", "", []string{"returnm.t.Range(lower,upper)"}),
			stmtsAre("Map.RangeReverse", "", []string{"returnm.t.RangeReverse(lower,upper)"}),
			stmtsAre("NewMap", "", []string{"returnMap[K,V]{t:newBtree[K,V](xsort.LessCompare(less)),}"}),
			stmtsAre("NewMapCmp", "", []string{"returnMap[K,V]{t:newBtree[K,V](compare),}"}))},
		Site{Module: mod, Pkg: pkg, Func: "Set.Add", Name: "setForwards", Kind: Custom, Custom: allOf(
			stmtsAre("Set.Len", "", []string{"returns.t.size"}),
			stmtsAre("Set.Add", "", []string{"s.t.Put(item,struct{}{})"}),
			stmtsAre("Set.Remove", "", []string{"s.t.Delete(item)"}),
			stmtsAre("Set.Contains", "", []string{"returns.t.Contains(item)"}),
			stmtsAre("Set.First", "", []string{"item,_:=s.t.First()", "returnitem"}),
			stmtsAre("Set.Last", "", []string{"item,_:=s.t.Last()", "returnitem"}),
			stmtsAre("Set.Iterate", "", []string{"returns.Range(Unbounded[T](),Unbounded[T]())"}),
			stmtsAre("Set.Range", "", []string{"returniterator.Map(s.t.Range(lower,upper),func(pairKVPair[T,struct{}])T{returnpair.Key})"}),
			stmtsAre("Set.RangeReverse", "", []string{"returniterator.Map(s.t.RangeReverse(lower,upper),func(pairKVPair[T,struct{}])T{returnpair.Key})"}),
			stmtsAre("NewSet", "", []string{"returnSet[T]{t:newBtree[T,struct{}](xsort.LessCompare(less)),}"}),
			stmtsAre("NewSetCmp", "", []string{"returnSet[T]{t:newBtree[T,struct{}](compare),}"}))},
		// xsort.LessCompare (whole closure)
		Site{Module: mod, Pkg: "xsort", Func: "LessCompare", Name: "lessCompare", Kind: Func, Sel: "funclit[0].body",
			Params: B("lab", "lba"), Vars: map[string]string{"less(a,b)": "lab", "less(b,a)": "lba"}},
	)
}

// ---------------------------------------------------------------------------------------------
// custom extractors

// arrayLen emits the length expression of an array-typed struct field (identifier or literal).
func arrayLen(typeName, field, name string) func(c *Ctx, s *Site) (string, error) {
	return func(c *Ctx, s *Site) (string, error) {
		files, err := c.files(s.Pkg)
		if err != nil {
			return "", err
		}
		for _, f := range files {
			for _, d := range f.Decls {
				gd, ok := d.(*ast.GenDecl)
				if !ok || gd.Tok != token.TYPE {
					continue
				}
				for _, sp := range gd.Specs {
					ts := sp.(*ast.TypeSpec)
					st, ok := ts.Type.(*ast.StructType)
					if ts.Name.Name != typeName || !ok {
						continue
					}
					for _, fl := range st.Fields.List {
						for _, n := range fl.Names {
							if n.Name != field {
								continue
							}
							at, ok := fl.Type.(*ast.ArrayType)
							if !ok || at.Len == nil {
								return "", fmt.Errorf("%s.%s is not an array", typeName, field)
							}
							switch l := at.Len.(type) {
							case *ast.Ident:
								return fmt.Sprintf("/-- `%s.%s [%s]` -/\ndef %s : Int := %s\n", typeName, field, l.Name, name, l.Name), nil
							case *ast.BasicLit:
								return fmt.Sprintf("/-- `%s.%s [%s]` -/\ndef %s : Int := (%s : Int)\n", typeName, field, l.Value, name, l.Value), nil
							}
							return "", fmt.Errorf("%s.%s: unsupported array length %s", typeName, field, c.Text(at.Len))
						}
					}
				}
			}
		}
		return "", fmt.Errorf("struct %s field %s not found", typeName, field)
	}
}

// simpleStmts returns the statements of a scope printed without whitespace (compound statements are
// printed whole).
func simpleStmts(c *Ctx, fn, sel, pkg string) ([]string, error) {
	fd, err := c.FindFunc(pkg, fn)
	if err != nil {
		return nil, err
	}
	var scope ast.Node = fd.Body
	if sel != "" {
		scope, err = c.SelectPath(fd, sel)
		if err != nil {
			return nil, err
		}
	}
	var list []ast.Stmt
	switch x := scope.(type) {
	case *ast.BlockStmt:
		list = x.List
	case ast.Stmt:
		list = []ast.Stmt{x}
	default:
		return nil, fmt.Errorf("%s %s: not a statement scope", fn, sel)
	}
	var out []string
	for _, st := range list {
		out = append(out, c.Text(st))
	}
	return out, nil
}

type boolFact func(c *Ctx, s *Site) (bool, string, error)

// stmtsAre: the scope consists of exactly the given statements.
func stmtsAre(fn, sel string, want []string) boolFact {
	return func(c *Ctx, s *Site) (bool, string, error) {
		got, err := simpleStmts(c, fn, sel, s.Pkg)
		if err != nil {
			return false, "", err
		}
		desc := fmt.Sprintf("%s %s = %s", fn, sel, strings.Join(want, "; "))
		if len(got) != len(want) {
			return false, desc, nil
		}
		for i := range got {
			if got[i] != want[i] {
				return false, desc, nil
			}
		}
		return true, desc, nil
	}
}

// stmtsInOrder: the top-level statements of the function body contain the given ones in this order.
func stmtsInOrder(fn string, want []string) boolFact {
	return func(c *Ctx, s *Site) (bool, string, error) {
		got, err := simpleStmts(c, fn, "", s.Pkg)
		if err != nil {
			return false, "", err
		}
		desc := fmt.Sprintf("%s has in order %s", fn, strings.Join(want, "; "))
		j := 0
		for _, g := range got {
			if j < len(want) && g == want[j] {
				j++
			}
		}
		return j == len(want), desc, nil
	}
}

// allOf emits `def name : Bool` = conjunction of the facts. It is usable directly as Site.Custom
// through the method value below.
func allOf(fs ...boolFact) func(c *Ctx, s *Site) (string, error) {
	return func(c *Ctx, s *Site) (string, error) {
		all := true
		var descs []string
		for _, f := range fs {
			ok, d, err := f(c, s)
			if err != nil {
				return "", err
			}
			if !ok {
				all = false
				d = "NOT " + d
			}
			descs = append(descs, d)
		}
		return fmt.Sprintf("/-- %s -/\ndef %s : Bool := %v\n", strings.ReplaceAll(strings.Join(descs, " ;; "), "-/", "- /"), s.Name, all), nil
	}
}

const rangeTypes = `inductive BoundKind where
  | incl | excl | unb
  deriving DecidableEq, Repr

inductive SeekKind where
  | first | last | ge | gt | le | lt
  deriving DecidableEq, Repr

inductive Side where
  | lower | upper
  deriving DecidableEq, Repr

inductive CmpOp where
  | lt | le | gt | ge
  deriving DecidableEq, Repr

/-- what a ` + "`case`" + ` of the second switch of Range/RangeReverse returns: the bare cursor iterator or
` + "`c.ForwardWhile(fun k => compare k <side>.key <op> 0)`" + ` (the in-range predicate, tested on the key before the value is read); ` + "`fwd`" + ` = ` + "`c.Forward…`" + ` -/
inductive StopKind where
  | all (fwd : Bool)
  | while (fwd : Bool) (op : CmpOp) (side : Side)
  deriving DecidableEq, Repr
`

func boundLabel(c *Ctx, cc *ast.CaseClause) (string, bool, error) {
	if cc.List == nil {
		return "", true, nil // default
	}
	if len(cc.List) != 1 {
		return "", false, fmt.Errorf("case with %d labels", len(cc.List))
	}
	switch c.Text(cc.List[0]) {
	case "boundInclude":
		return ".incl", false, nil
	case "boundExclude":
		return ".excl", false, nil
	case "boundUnbounded":
		return ".unb", false, nil
	}
	return "", false, fmt.Errorf("unknown case label %s", c.Text(cc.List[0]))
}

func nthSwitch(c *Ctx, pkg, fn string, k int) (*ast.SwitchStmt, string, error) {
	fd, err := c.FindFunc(pkg, fn)
	if err != nil {
		return nil, "", err
	}
	n, err := c.SelectPath(fd, fmt.Sprintf("switch[%d]", k))
	if err != nil {
		return nil, "", err
	}
	sw, ok := n.(*ast.SwitchStmt)
	if !ok || sw.Tag == nil {
		return nil, "", fmt.Errorf("%s switch[%d]: not a tagged switch", fn, k)
	}
	return sw, c.Text(sw.Tag), nil
}

func sideOf(txt string) (string, error) {
	switch txt {
	case "lower.key":
		return "Side.lower", nil
	case "upper.key":
		return "Side.upper", nil
	}
	return "", fmt.Errorf("unexpected key expression %s", txt)
}

// seekTable: switch #k of fn, each case = one cursor seek call.
// Emits `def name : Side × List (BoundKind × SeekKind × Option Side)`: the bound the switch looks at and per case the seek and its argument.
func seekTable(fn string, k int, name string) func(c *Ctx, s *Site) (string, error) {
	return func(c *Ctx, s *Site) (string, error) {
		sw, tag, err := nthSwitch(c, s.Pkg, fn, k)
		if err != nil {
			return "", err
		}
		var tagSide string
		switch tag {
		case "lower.type_":
			tagSide = "Side.lower"
		case "upper.type_":
			tagSide = "Side.upper"
		default:
			return "", fmt.Errorf("%s: switch on %s", fn, tag)
		}
		var rows []string
		for _, cl := range sw.Body.List {
			cc := cl.(*ast.CaseClause)
			lab, isDefault, err := boundLabel(c, cc)
			if err != nil {
				return "", err
			}
			if isDefault {
				if len(cc.Body) != 1 || !strings.HasPrefix(c.Text(cc.Body[0]), "panic(") {
					return "", fmt.Errorf("%s: default case is not a panic", fn)
				}
				continue
			}
			if len(cc.Body) != 1 {
				return "", fmt.Errorf("%s case %s: %d statements", fn, lab, len(cc.Body))
			}
			es, ok := cc.Body[0].(*ast.ExprStmt)
			if !ok {
				return "", fmt.Errorf("%s case %s: not a call", fn, lab)
			}
			call, ok := es.X.(*ast.CallExpr)
			if !ok {
				return "", fmt.Errorf("%s case %s: not a call", fn, lab)
			}
			seek := map[string]string{"c.SeekFirst": ".first", "c.SeekLast": ".last", "c.SeekFirstGreaterOrEqual": ".ge",
				"c.SeekFirstGreater": ".gt", "c.SeekLastLessOrEqual": ".le", "c.SeekLastLess": ".lt"}[c.Text(call.Fun)]
			if seek == "" {
				return "", fmt.Errorf("%s case %s: unknown seek %s", fn, lab, c.Text(call.Fun))
			}
			arg := "none"
			if len(call.Args) == 1 {
				sd, err := sideOf(c.Text(call.Args[0]))
				if err != nil {
					return "", err
				}
				arg = "some " + sd
			} else if len(call.Args) != 0 {
				return "", fmt.Errorf("%s case %s: unexpected arguments", fn, lab)
			}
			rows = append(rows, fmt.Sprintf("(%s, %s, %s)", lab, seek, arg))
		}
		return fmt.Sprintf("/-- first switch of `%s` (on `%s`): the cursor seek per bound kind -/\ndef %s : Side × List (BoundKind × SeekKind × Option Side) :=\n  (%s, [%s])\n",
			fn, tag, name, tagSide, strings.Join(rows, ", ")), nil
	}
}

// stopTable: switch #k of fn, each case = `return c.Forward()` or `return c.ForwardWhile(func(k K) bool { return t.compare(k, X.key) OP 0 })`
// (Backward / BackwardWhile likewise).
func stopTable(fn string, k int, name string) func(c *Ctx, s *Site) (string, error) {
	return func(c *Ctx, s *Site) (string, error) {
		sw, tag, err := nthSwitch(c, s.Pkg, fn, k)
		if err != nil {
			return "", err
		}
		var tagSide string
		switch tag {
		case "lower.type_":
			tagSide = "Side.lower"
		case "upper.type_":
			tagSide = "Side.upper"
		default:
			return "", fmt.Errorf("%s: switch on %s", fn, tag)
		}
		dirOf := func(x ast.Expr) (string, error) {
			switch c.Text(x) {
			case "c.Forward()":
				return "true", nil
			case "c.Backward()":
				return "false", nil
			}
			return "", fmt.Errorf("%s: unexpected iterator %s", fn, c.Text(x))
		}
		var rows []string
		for _, cl := range sw.Body.List {
			cc := cl.(*ast.CaseClause)
			lab, isDefault, err := boundLabel(c, cc)
			if err != nil {
				return "", err
			}
			if isDefault {
				if len(cc.Body) != 1 || !strings.HasPrefix(c.Text(cc.Body[0]), "panic(") {
					return "", fmt.Errorf("%s: default case is not a panic", fn)
				}
				continue
			}
			if len(cc.Body) != 1 {
				return "", fmt.Errorf("%s case %s: %d statements", fn, lab, len(cc.Body))
			}
			rs, ok := cc.Body[0].(*ast.ReturnStmt)
			if !ok || len(rs.Results) != 1 {
				return "", fmt.Errorf("%s case %s: not a single return", fn, lab)
			}
			call, ok := rs.Results[0].(*ast.CallExpr)
			if !ok {
				return "", fmt.Errorf("%s case %s: not a call", fn, lab)
			}
			var d string
			switch c.Text(call.Fun) {
			case "c.ForwardWhile":
				d = "true"
			case "c.BackwardWhile":
				d = "false"
			default:
				d, err := dirOf(call)
				if err != nil {
					return "", err
				}
				rows = append(rows, fmt.Sprintf("(%s, .all %s)", lab, d))
				continue
			}
			if len(call.Args) != 1 {
				return "", fmt.Errorf("%s case %s: %s with %d args", fn, lab, c.Text(call.Fun), len(call.Args))
			}
			fl, ok := call.Args[0].(*ast.FuncLit)
			if !ok || fl.Type.Params == nil || len(fl.Type.Params.List) != 1 || len(fl.Type.Params.List[0].Names) != 1 ||
				fl.Type.Params.List[0].Names[0].Name != "k" {
				return "", fmt.Errorf("%s case %s: predicate is not a closure over one key k", fn, lab)
			}
			if len(fl.Body.List) != 1 {
				return "", fmt.Errorf("%s case %s: predicate is not a one-statement closure", fn, lab)
			}
			ret, ok := fl.Body.List[0].(*ast.ReturnStmt)
			if !ok || len(ret.Results) != 1 {
				return "", fmt.Errorf("%s case %s: predicate does not return one value", fn, lab)
			}
			be, ok := ret.Results[0].(*ast.BinaryExpr)
			if !ok || c.Text(be.Y) != "0" {
				return "", fmt.Errorf("%s case %s: predicate is not `compare(..) OP 0`", fn, lab)
			}
			op := map[token.Token]string{token.LSS: ".lt", token.LEQ: ".le", token.GTR: ".gt", token.GEQ: ".ge"}[be.Op]
			if op == "" {
				return "", fmt.Errorf("%s case %s: operator %s", fn, lab, be.Op)
			}
			cmp, ok := be.X.(*ast.CallExpr)
			if !ok || c.Text(cmp.Fun) != "t.compare" || len(cmp.Args) != 2 || c.Text(cmp.Args[0]) != "k" {
				return "", fmt.Errorf("%s case %s: predicate is not t.compare(k, _)", fn, lab)
			}
			sd, err := sideOf(c.Text(cmp.Args[1]))
			if err != nil {
				return "", err
			}
			rows = append(rows, fmt.Sprintf("(%s, .while %s %s %s)", lab, d, op, sd))
		}
		return fmt.Sprintf("/-- second switch of `%s` (on `%s`): the iterator returned per bound kind -/\ndef %s : Side × List (BoundKind × StopKind) :=\n  (%s, [%s])\n",
			fn, tag, name, tagSide, strings.Join(rows, ", ")), nil
	}
}

// isHandle: the struct has exactly one field, of pointer type, and all its methods have value receivers.
func isHandle(typeName, name string) func(c *Ctx, s *Site) (string, error) {
	return func(c *Ctx, s *Site) (string, error) {
		files, err := c.files(s.Pkg)
		if err != nil {
			return "", err
		}
		found, one, ptr := false, false, false
		valueRecv := true
		methods := 0
		for _, f := range files {
			for _, d := range f.Decls {
				switch x := d.(type) {
				case *ast.GenDecl:
					if x.Tok != token.TYPE {
						continue
					}
					for _, sp := range x.Specs {
						ts := sp.(*ast.TypeSpec)
						st, ok := ts.Type.(*ast.StructType)
						if ts.Name.Name != typeName || !ok {
							continue
						}
						found = true
						nf := 0
						for _, fl := range st.Fields.List {
							if len(fl.Names) == 0 {
								nf++
							}
							nf += len(fl.Names)
							_, isPtr := fl.Type.(*ast.StarExpr)
							ptr = isPtr
						}
						one = nf == 1
					}
				case *ast.FuncDecl:
					if recvName(x) == typeName {
						methods++
						if _, isPtr := x.Recv.List[0].Type.(*ast.StarExpr); isPtr {
							valueRecv = false
						}
					}
				}
			}
		}
		if !found {
			return "", fmt.Errorf("type %s not found", typeName)
		}
		return fmt.Sprintf("/-- `%s` is a struct of exactly one field, a pointer, and its %d methods have value receivers -/\ndef %s : Bool := %v\n",
			typeName, methods, name, one && ptr && valueRecv && methods > 0), nil
	}
}
