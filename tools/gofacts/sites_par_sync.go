package main

// parallel/parallel.go -> Juniper.Gen.ParSync: the *synchronisation discipline* of MapIterator and the
// *origin of the context* of MapStream. Consumed by Model/ParMap.lean (`Iter.sectionsAtomic`,
// `Stream.ctxPlain`, `Stream.closeDiscipline`), hence by every property theorem of C14 and the MapStream
// clauses of C08/C09.
//
// The LTS of MapIterator makes "Lock; check inFlight; (cond.Wait | inFlight++); Unlock" one atomic label
// (`dAcquire`) and "Lock; inFlight--; Signal?; Unlock" part of another (`cYield`). That is faithful only
// if both critical sections lock the *same* mutex, that mutex is the cond's locker, the wait sits in a
// loop re-checking the condition, the signal follows the decrement inside the section, and nothing else
// touches inFlight or the lock. None of this is visible to statement-kind skeletons (identifiers are
// normalised away) or to presence facts (`iter.m2.Lock()` is just another text). The sites below render,
// for a body, the ordered list of synchronisation-relevant operations as pairs (operation, operand) with
// the *receiver expression resolved to the struct field* and the variable naming the iterator
// (`mIter` in the constructor, the receiver `iter` in the method) mapped to the one token `it`:
//
//	("Lock","it.m") ("Unlock","it.m") ("TryLock",…) ("RLock",…) ("Wait","it.cond") ("Signal","it.cond")
//	("Broadcast",…)                          calls of these methods, whatever the receiver is
//	("defer Unlock",…) ("go Lock",…)          the same as the call of a defer / go statement
//	("ref Lock",…)                            the method mentioned without being called (method value)
//	("inc","it.inFlight") ("dec","it.inFlight")   x++ / x-- of a tracked field
//	("set","it.inFlight = <rhs>")            other assignments to a tracked field
//	("use","<statement>")                    any other statement mentioning a tracked field (reads, &x)
//	("NewCond","it.cond = sync.NewCond(&it.m)")
//	("for","<cond>") … ("}","")              a loop / if / else / range / select / case / func literal that
//	("if","<cond>") ("else","") ("range",…)  contains one of the above or whose header mentions a tracked
//	("func{","")                             field; other compound statements are transparent
//
// The expected lists live in Lean (`Model/ParMap.lean`), not here.

import (
	"fmt"
	"go/ast"
	"go/token"
	"regexp"
	"sort"
	"strings"
)

var psyncMethods = map[string]bool{"Lock": true, "Unlock": true, "TryLock": true, "RLock": true, "RUnlock": true,
	"TryRLock": true, "Wait": true, "Signal": true, "Broadcast": true, "RLocker": true}

type psyncOp struct{ K, A string }

type psyncWalker struct {
	c      *Ctx
	self   map[string]bool      // identifiers naming the object -> "it"
	fields map[string]bool      // tracked data fields
	skip   map[*ast.FuncLit]bool // function literals rendered by a site of their own
	re     *regexp.Regexp
}

func newPsyncWalker(c *Ctx, self []string, fields []string) *psyncWalker {
	w := &psyncWalker{c: c, self: map[string]bool{}, fields: map[string]bool{}, skip: map[*ast.FuncLit]bool{}}
	var alts []string
	for _, s := range self {
		if s != "" && s != "_" {
			w.self[s] = true
			alts = append(alts, regexp.QuoteMeta(s))
		}
	}
	for _, f := range fields {
		w.fields[f] = true
	}
	if len(alts) > 0 {
		w.re = regexp.MustCompile(`(^|[^A-Za-z0-9_.])(` + strings.Join(alts, "|") + `)\.`)
	}
	return w
}

// norm renders an expression with the object variable replaced by `it`.
func (w *psyncWalker) norm(x ast.Expr) string {
	switch e := x.(type) {
	case *ast.Ident:
		if w.self[e.Name] {
			return "it"
		}
		return e.Name
	case *ast.SelectorExpr:
		return w.norm(e.X) + "." + e.Sel.Name
	case *ast.StarExpr:
		return "*" + w.norm(e.X)
	case *ast.ParenExpr:
		return "(" + w.norm(e.X) + ")"
	case *ast.UnaryExpr:
		return e.Op.String() + w.norm(e.X)
	}
	return w.text(x)
}

// text pretty-prints a node on one line with `<self>.` replaced by `it.`.
func (w *psyncWalker) text(n ast.Node) string {
	s := w.c.Pretty(n)
	if w.re != nil {
		s = w.re.ReplaceAllString(s, "${1}it.")
	}
	return s
}

func (w *psyncWalker) mentionsTracked(n ast.Node) bool {
	if n == nil {
		return false
	}
	found := false
	ast.Inspect(n, func(x ast.Node) bool {
		if se, ok := x.(*ast.SelectorExpr); ok && w.fields[se.Sel.Name] {
			found = true
		}
		return !found
	})
	return found
}

// exprOps: operations inside an expression or simple statement (pre-order = evaluation order for the
// shapes that occur here). prefix is "defer " / "go " for the call of such a statement.
func (w *psyncWalker) exprOps(n ast.Node, prefix string, top *ast.CallExpr) []psyncOp {
	var out []psyncOp
	if n == nil {
		return nil
	}
	called := map[*ast.SelectorExpr]bool{}
	ast.Inspect(n, func(x ast.Node) bool {
		switch e := x.(type) {
		case *ast.FuncLit:
			if !w.skip[e] {
				sub := w.block(e.Body.List)
				if len(sub) > 0 {
					out = append(out, psyncOp{"func{", ""})
					out = append(out, sub...)
					out = append(out, psyncOp{"}", ""})
				}
			}
			return false
		case *ast.CallExpr:
			if se, ok := e.Fun.(*ast.SelectorExpr); ok {
				if psyncMethods[se.Sel.Name] {
					called[se] = true
					p := ""
					if e == top {
						p = prefix
					}
					out = append(out, psyncOp{p + se.Sel.Name, w.norm(se.X)})
				}
				if w.c.Text(e.Fun) == "sync.NewCond" {
					out = append(out, psyncOp{"NewCond", w.text(e)})
				}
			}
		case *ast.SelectorExpr:
			if psyncMethods[e.Sel.Name] && !called[e] {
				out = append(out, psyncOp{"ref " + e.Sel.Name, w.norm(e.X)})
			}
		}
		return true
	})
	return out
}

func (w *psyncWalker) simple(s ast.Stmt) []psyncOp {
	if s == nil {
		return nil
	}
	switch st := s.(type) {
	case *ast.IncDecStmt:
		if se, ok := st.X.(*ast.SelectorExpr); ok && w.fields[se.Sel.Name] {
			k := "inc"
			if st.Tok == token.DEC {
				k = "dec"
			}
			return []psyncOp{{k, w.norm(st.X)}}
		}
	case *ast.AssignStmt:
		var out []psyncOp
		// NewCond: render the whole assignment so that the locker is tied to the cond field
		for _, r := range st.Rhs {
			if ce, ok := r.(*ast.CallExpr); ok && w.c.Text(ce.Fun) == "sync.NewCond" && len(st.Lhs) == 1 && len(st.Rhs) == 1 {
				return []psyncOp{{"NewCond", w.text(st)}}
			}
		}
		if len(st.Lhs) == 1 {
			if se, ok := st.Lhs[0].(*ast.SelectorExpr); ok && w.fields[se.Sel.Name] {
				out = append(out, w.exprOps(st.Rhs[0], "", nil)...)
				return append(out, psyncOp{"set", w.text(st)})
			}
		}
	case *ast.DeferStmt:
		out := w.exprOps(st.Call, "defer ", st.Call)
		if w.mentionsTrackedOutsideLits(st) {
			out = append(out, psyncOp{"use", w.text(st)})
		}
		return out
	case *ast.GoStmt:
		out := w.exprOps(st.Call, "go ", st.Call)
		if w.mentionsTrackedOutsideLits(st) {
			out = append(out, psyncOp{"use", w.text(st)})
		}
		return out
	}
	out := w.exprOps(s, "", nil)
	if w.mentionsTrackedOutsideLits(s) {
		out = append(out, psyncOp{"use", w.text(s)})
	}
	return out
}

// a tracked field mentioned in the statement itself (not inside a nested function literal, whose body
// is rendered on its own)
func (w *psyncWalker) mentionsTrackedOutsideLits(n ast.Node) bool {
	found := false
	ast.Inspect(n, func(x ast.Node) bool {
		switch e := x.(type) {
		case *ast.FuncLit:
			return false
		case *ast.SelectorExpr:
			if w.fields[e.Sel.Name] {
				found = true
			}
		}
		return !found
	})
	return found
}

func (w *psyncWalker) wrap(kind, arg string, headerTracked bool, header, body []psyncOp) []psyncOp {
	if len(body) == 0 && len(header) == 0 && !headerTracked {
		return nil
	}
	out := append([]psyncOp{}, header...)
	out = append(out, psyncOp{kind, arg})
	out = append(out, body...)
	return append(out, psyncOp{"}", ""})
}

func (w *psyncWalker) block(list []ast.Stmt) []psyncOp {
	var out []psyncOp
	for _, s := range list {
		out = append(out, w.stmt(s)...)
	}
	return out
}

func (w *psyncWalker) stmt(s ast.Stmt) []psyncOp {
	switch st := s.(type) {
	case nil:
		return nil
	case *ast.BlockStmt:
		return w.block(st.List)
	case *ast.LabeledStmt:
		return w.stmt(st.Stmt)
	case *ast.IfStmt:
		var out []psyncOp
		out = append(out, w.simple(st.Init)...)
		hdr := w.exprOps(st.Cond, "", nil)
		body := w.block(st.Body.List)
		var els []psyncOp
		if st.Else != nil {
			els = w.stmt(st.Else)
		}
		if len(hdr) == 0 && len(body) == 0 && len(els) == 0 && !w.mentionsTracked(st.Cond) {
			return out
		}
		out = append(out, hdr...)
		out = append(out, psyncOp{"if", w.text(st.Cond)})
		out = append(out, body...)
		if st.Else != nil {
			out = append(out, psyncOp{"else", ""})
			out = append(out, els...)
		}
		return append(out, psyncOp{"}", ""})
	case *ast.ForStmt:
		var out []psyncOp
		out = append(out, w.simple(st.Init)...)
		var hdr []psyncOp
		cond := ""
		tracked := false
		if st.Cond != nil {
			hdr = w.exprOps(st.Cond, "", nil)
			cond = w.text(st.Cond)
			tracked = w.mentionsTracked(st.Cond)
		}
		body := w.block(st.Body.List)
		post := w.simple(st.Post)
		if len(post) > 0 {
			body = append(body, psyncOp{"post", ""})
			body = append(body, post...)
		}
		return append(out, w.wrap("for", cond, tracked, hdr, body)...)
	case *ast.RangeStmt:
		hdr := w.exprOps(st.X, "", nil)
		return w.wrap("range", w.text(st.X), w.mentionsTracked(st.X), hdr, w.block(st.Body.List))
	case *ast.SelectStmt:
		var body []psyncOp
		for _, cl := range st.Body.List {
			cc := cl.(*ast.CommClause)
			comm := w.simple(cc.Comm)
			b := w.block(cc.Body)
			if len(comm) > 0 || len(b) > 0 {
				arg := "default"
				if cc.Comm != nil {
					arg = w.text(cc.Comm)
				}
				body = append(body, psyncOp{"case", arg})
				body = append(body, comm...)
				body = append(body, b...)
			}
		}
		return w.wrap("select", "", false, nil, body)
	case *ast.SwitchStmt:
		var out []psyncOp
		out = append(out, w.simple(st.Init)...)
		var hdr []psyncOp
		tag := ""
		if st.Tag != nil {
			hdr = w.exprOps(st.Tag, "", nil)
			tag = w.text(st.Tag)
		}
		var body []psyncOp
		for _, cl := range st.Body.List {
			cc := cl.(*ast.CaseClause)
			var h []psyncOp
			var texts []string
			tr := false
			for _, e := range cc.List {
				h = append(h, w.exprOps(e, "", nil)...)
				texts = append(texts, w.text(e))
				tr = tr || w.mentionsTracked(e)
			}
			b := w.block(cc.Body)
			if len(h) > 0 || len(b) > 0 || tr {
				body = append(body, h...)
				body = append(body, psyncOp{"case", strings.Join(texts, ", ")})
				body = append(body, b...)
			}
		}
		return append(out, w.wrap("switch", tag, st.Tag != nil && w.mentionsTracked(st.Tag), hdr, body)...)
	case *ast.TypeSwitchStmt:
		var body []psyncOp
		for _, cl := range st.Body.List {
			body = append(body, w.block(cl.(*ast.CaseClause).Body)...)
		}
		return w.wrap("switch", "type", false, nil, body)
	}
	return w.simple(s)
}

func psyncLean(ops []psyncOp) string {
	q := make([]string, len(ops))
	for i, o := range ops {
		q[i] = "(" + leanString(o.K) + ", " + leanString(o.A) + ")"
	}
	return "[" + strings.Join(q, ",\n  ") + "]"
}

// the identifier the constructor binds to `&typ[...]{…}` (":=" or "=" or var)
func psyncCtorVar(c *Ctx, fd *ast.FuncDecl, typ string) string {
	name := ""
	ast.Inspect(fd.Body, func(x ast.Node) bool {
		as, ok := x.(*ast.AssignStmt)
		if !ok || len(as.Lhs) != 1 || len(as.Rhs) != 1 {
			return true
		}
		r := as.Rhs[0]
		if u, ok := r.(*ast.UnaryExpr); ok && u.Op == token.AND {
			r = u.X
		}
		cl, ok := r.(*ast.CompositeLit)
		if !ok {
			return true
		}
		t := cl.Type
		if ix, ok := t.(*ast.IndexExpr); ok {
			t = ix.X
		}
		if ix, ok := t.(*ast.IndexListExpr); ok {
			t = ix.X
		}
		if id, ok := t.(*ast.Ident); ok && id.Name == typ {
			if l, ok := as.Lhs[0].(*ast.Ident); ok && name == "" {
				name = l.Name
			}
		}
		return true
	})
	return name
}

func psyncRecvVar(fd *ast.FuncDecl) string {
	if fd.Recv == nil || len(fd.Recv.List) == 0 || len(fd.Recv.List[0].Names) == 0 {
		return ""
	}
	return fd.Recv.List[0].Names[0].Name
}

// psyncSite: operations of a body. sel "" = the whole function body; omit = selectors of function
// literals left out (they have sites of their own). typ = the struct type whose constructor variable /
// receiver is `it`.
func psyncSite(fn, name, sel string, omit []string, typ string, fields []string, doc string) Site {
	return Site{Module: "ParSync", Pkg: "parallel", Func: fn, Name: name, Kind: Custom, Sel: sel,
		Custom: func(c *Ctx, s *Site) (string, error) {
			fd, err := c.FindFunc(s.Pkg, s.Func)
			if err != nil {
				return "", err
			}
			self := []string{psyncRecvVar(fd)}
			if recvName(fd) != typ {
				self = []string{psyncCtorVar(c, fd, typ)}
				if self[0] == "" {
					return "", fmt.Errorf("no variable bound to a %s literal in %s", typ, s.Func)
				}
			}
			w := newPsyncWalker(c, self, fields)
			for _, o := range omit {
				n, err := c.SelectPath(fd, o)
				if err != nil {
					return "", err
				}
				fl, ok := n.(*ast.FuncLit)
				if !ok {
					return "", fmt.Errorf("selector %q is not a function literal", o)
				}
				w.skip[fl] = true
			}
			list := fd.Body.List
			if s.Sel != "" {
				n, err := c.SelectPath(fd, s.Sel)
				if err != nil {
					return "", err
				}
				fl, ok := n.(*ast.FuncLit)
				if !ok {
					return "", fmt.Errorf("selector %q is not a function literal", s.Sel)
				}
				list = fl.Body.List
			}
			where := s.Sel
			if where == "" {
				where = "body"
			}
			return fmt.Sprintf("/-- %s: synchronisation operations of `%s` %s in source order (`%s` = the %s) -/\ndef %s : List (String × String) := %s\n",
				doc, s.Func, where, "it", typ, s.Name, psyncLean(w.block(list))), nil
		}}
}

// psyncFields: the fields of a struct type as ("it.<name>", "<type>"), one entry per name.
func psyncFields(typ, name string) Site {
	return Site{Module: "ParSync", Pkg: "parallel", Name: name, Kind: Custom,
		Custom: func(c *Ctx, s *Site) (string, error) {
			files, err := c.files(s.Pkg)
			if err != nil {
				return "", err
			}
			for _, f := range files {
				for _, d := range f.Decls {
					gd, ok := d.(*ast.GenDecl)
					if !ok || gd.Tok != token.TYPE {
						continue
					}
					for _, sp := range gd.Specs {
						ts := sp.(*ast.TypeSpec)
						stt, ok := ts.Type.(*ast.StructType)
						if !ok || ts.Name.Name != typ {
							continue
						}
						var q []string
						for _, fl := range stt.Fields.List {
							t := c.Pretty(fl.Type)
							if len(fl.Names) == 0 {
								q = append(q, "("+leanString("it.(embedded)")+", "+leanString(t)+")")
							}
							for _, n := range fl.Names {
								q = append(q, "("+leanString("it."+n.Name)+", "+leanString(t)+")")
							}
						}
						return fmt.Sprintf("/-- fields of `type %s struct` -/\ndef %s : List (String × String) := [%s]\n",
							typ, s.Name, strings.Join(q, ",\n  ")), nil
					}
				}
			}
			return "", fmt.Errorf("struct type %s not found in %s", typ, s.Pkg)
		}}
}

// psyncCondInit: every `L = sync.NewCond(&Y)` of the listed functions as (L, Y) with the object
// variable mapped to `it`.
func psyncCondInit(name, typ string, fns []string) Site {
	return Site{Module: "ParSync", Pkg: "parallel", Name: name, Kind: Custom,
		Custom: func(c *Ctx, s *Site) (string, error) {
			var q []string
			for _, fn := range fns {
				fd, err := c.FindFunc(s.Pkg, fn)
				if err != nil {
					return "", err
				}
				self := psyncRecvVar(fd)
				if recvName(fd) != typ {
					self = psyncCtorVar(c, fd, typ)
				}
				w := newPsyncWalker(c, []string{self}, nil)
				ast.Inspect(fd.Body, func(x ast.Node) bool {
					switch e := x.(type) {
					case *ast.AssignStmt:
						if len(e.Lhs) == 1 && len(e.Rhs) == 1 {
							if ce, ok := e.Rhs[0].(*ast.CallExpr); ok && c.Text(ce.Fun) == "sync.NewCond" && len(ce.Args) == 1 {
								arg := w.norm(ce.Args[0])
								arg = strings.TrimPrefix(arg, "&")
								q = append(q, "("+leanString(w.norm(e.Lhs[0]))+", "+leanString(arg)+")")
								return false
							}
						}
					case *ast.CallExpr:
						if c.Text(e.Fun) == "sync.NewCond" {
							// a NewCond that is not the right-hand side of a plain assignment
							q = append(q, "("+leanString("?")+", "+leanString(w.text(e))+")")
						}
					}
					return true
				})
			}
			return fmt.Sprintf("/-- every `sync.NewCond` of %s as (cond, locker) -/\ndef %s : List (String × String) := [%s]\n",
				strings.Join(fns, ", "), s.Name, strings.Join(q, ",\n  ")), nil
		}}
}

// psyncTouchers: the functions and methods of the package whose body mentions one of the fields
// (as a selector), sorted.
func psyncTouchers(name string, fields []string) Site {
	return Site{Module: "ParSync", Pkg: "parallel", Name: name, Kind: Custom,
		Custom: func(c *Ctx, s *Site) (string, error) {
			files, err := c.files(s.Pkg)
			if err != nil {
				return "", err
			}
			fs := map[string]bool{}
			for _, f := range fields {
				fs[f] = true
			}
			var names []string
			for _, f := range files {
				for _, d := range f.Decls {
					fd, ok := d.(*ast.FuncDecl)
					if !ok || fd.Body == nil {
						continue
					}
					hit := false
					ast.Inspect(fd.Body, func(x ast.Node) bool {
						if se, ok := x.(*ast.SelectorExpr); ok && fs[se.Sel.Name] {
							hit = true
						}
						return !hit
					})
					if hit {
						full := fd.Name.Name
						if r := recvName(fd); r != "" {
							full = r + "." + full
						}
						names = append(names, leanString(full))
					}
				}
			}
			sort.Strings(names)
			return fmt.Sprintf("/-- functions of package %s that mention a field `.%s` -/\ndef %s : List String := [%s]\n",
				s.Pkg, strings.Join(fields, "` / `."), s.Name, strings.Join(names, ", ")), nil
		}}
}

// psyncImports: the imports of the package's files as (local name or "", path), sorted, duplicates removed.
func psyncImports(name string) Site {
	return Site{Module: "ParSync", Pkg: "parallel", Name: name, Kind: Custom,
		Custom: func(c *Ctx, s *Site) (string, error) {
			files, err := c.files(s.Pkg)
			if err != nil {
				return "", err
			}
			seen := map[string]bool{}
			var q []string
			for _, f := range files {
				for _, im := range f.Imports {
					n := ""
					if im.Name != nil {
						n = im.Name.Name
					}
					e := "(" + leanString(n) + ", " + leanString(strings.Trim(im.Path.Value, "\"`")) + ")"
					if !seen[e] {
						seen[e] = true
						q = append(q, e)
					}
				}
			}
			sort.Strings(q)
			return fmt.Sprintf("/-- imports of package %s as (local name, path) -/\ndef %s : List (String × String) := [%s]\n",
				s.Pkg, s.Name, strings.Join(q, ",\n  ")), nil
		}}
}

// ---------------------------------------------------------------------------------------------------
// MapStream: where the context handed to the source, to f and to the selects comes from

// psyncAssigns: every assignment / definition / var declaration in the whole body (closures included)
// one of whose left-hand names is in `names`, as (lhs, rhs) texts in source order.
func psyncAssigns(fn, name string, names []string) Site {
	return Site{Module: "ParSync", Pkg: "parallel", Func: fn, Name: name, Kind: Custom,
		Custom: func(c *Ctx, s *Site) (string, error) {
			fd, err := c.FindFunc(s.Pkg, s.Func)
			if err != nil {
				return "", err
			}
			want := map[string]bool{}
			for _, n := range names {
				want[n] = true
			}
			var q []string
			add := func(lhs, rhs string) { q = append(q, "("+leanString(lhs)+", "+leanString(rhs)+")") }
			ast.Inspect(fd.Body, func(x ast.Node) bool {
				switch e := x.(type) {
				case *ast.AssignStmt:
					hit := false
					var l, r []string
					for _, lh := range e.Lhs {
						if id, ok := lh.(*ast.Ident); ok && want[id.Name] {
							hit = true
						}
						l = append(l, c.Pretty(lh))
					}
					for _, rh := range e.Rhs {
						r = append(r, c.Pretty(rh))
					}
					if hit {
						add(strings.Join(l, ", "), strings.Join(r, ", "))
					}
				case *ast.ValueSpec:
					hit := false
					var l, r []string
					for _, id := range e.Names {
						if want[id.Name] {
							hit = true
						}
						l = append(l, id.Name)
					}
					for _, rh := range e.Values {
						r = append(r, c.Pretty(rh))
					}
					if hit {
						add("var "+strings.Join(l, ", "), strings.Join(r, ", "))
					}
				case *ast.RangeStmt:
					for _, kv := range []ast.Expr{e.Key, e.Value} {
						if id, ok := kv.(*ast.Ident); ok && want[id.Name] {
							add("range "+id.Name, c.Pretty(e.X))
						}
					}
				case *ast.UnaryExpr:
					if id, ok := e.X.(*ast.Ident); ok && e.Op == token.AND && want[id.Name] {
						add("&"+id.Name, "")
					}
				}
				return true
			})
			return fmt.Sprintf("/-- every assignment to %s in `%s` (closures included) as (lhs, rhs) -/\ndef %s : List (String × String) := [%s]\n",
				strings.Join(names, " / "), s.Func, s.Name, strings.Join(q, ",\n  ")), nil
		}}
}

// psyncShadows: parameters of function literals (and the named results) inside fn that carry one of the names.
func psyncShadows(fn, name string, names []string) Site {
	return Site{Module: "ParSync", Pkg: "parallel", Func: fn, Name: name, Kind: Custom,
		Custom: func(c *Ctx, s *Site) (string, error) {
			fd, err := c.FindFunc(s.Pkg, s.Func)
			if err != nil {
				return "", err
			}
			want := map[string]bool{}
			for _, n := range names {
				want[n] = true
			}
			var q []string
			ast.Inspect(fd.Body, func(x ast.Node) bool {
				if fl, ok := x.(*ast.FuncLit); ok {
					for _, lst := range []*ast.FieldList{fl.Type.Params, fl.Type.Results} {
						if lst == nil {
							continue
						}
						for _, f := range lst.List {
							for _, n := range f.Names {
								if want[n.Name] {
									q = append(q, leanString(n.Name))
								}
							}
						}
					}
				}
				return true
			})
			return fmt.Sprintf("/-- function-literal parameters of `%s` named %s -/\ndef %s : List String := [%s]\n",
				s.Func, strings.Join(names, " / "), s.Name, strings.Join(q, ", ")), nil
		}}
}

// psyncUses: every mention of the identifier `id` in fn (other than on the left of its own definition)
// and every selector `.id` in the listed methods, as (function, innermost enclosing simple statement or
// key-value pair), in source order.
func psyncUses(name, id, fn string, methods []string) Site {
	return Site{Module: "ParSync", Pkg: "parallel", Func: fn, Name: name, Kind: Custom,
		Custom: func(c *Ctx, s *Site) (string, error) {
			var q []string
			add := func(f, t string) { q = append(q, "("+leanString(f)+", "+leanString(t)+")") }
			scan := func(fname string, selector bool) error {
				fd, err := c.FindFunc(s.Pkg, fname)
				if err != nil {
					return err
				}
				var stack []ast.Node
				ast.Inspect(fd.Body, func(x ast.Node) bool {
					if x == nil {
						stack = stack[:len(stack)-1]
						return true
					}
					stack = append(stack, x)
					hit := false
					switch e := x.(type) {
					case *ast.Ident:
						hit = !selector && e.Name == id
					case *ast.SelectorExpr:
						hit = selector && e.Sel.Name == id
					}
					if !hit {
						return true
					}
					// a selector's Sel identifier is visited as an Ident too: only count plain identifiers
					if !selector && len(stack) >= 2 {
						if se, ok := stack[len(stack)-2].(*ast.SelectorExpr); ok && se.Sel == x {
							return true
						}
					}
					// the key of a struct-literal entry (`cancel: …`) is a field name, not a use
					if !selector && len(stack) >= 2 {
						if kv, ok := stack[len(stack)-2].(*ast.KeyValueExpr); ok && kv.Key == x {
							return true
						}
					}
					// innermost enclosing key-value pair or simple statement
					for i := len(stack) - 2; i >= 0; i-- {
						switch p := stack[i].(type) {
						case *ast.KeyValueExpr:
							add(fname, c.Pretty(p))
							return true
						case *ast.AssignStmt:
							// the defining occurrence on the left-hand side is not a use
							for _, lh := range p.Lhs {
								if lh == x {
									return true
								}
							}
							add(fname, c.Pretty(p))
							return true
						case *ast.ExprStmt, *ast.DeferStmt, *ast.GoStmt, *ast.ReturnStmt, *ast.SendStmt, *ast.IncDecStmt, *ast.DeclStmt:
							add(fname, c.Pretty(p))
							return true
						case *ast.IfStmt, *ast.ForStmt, *ast.RangeStmt, *ast.SwitchStmt, *ast.CaseClause, *ast.CommClause:
							add(fname, "in the header of "+strings.SplitN(c.Pretty(p), "{", 2)[0])
							return true
						}
					}
					add(fname, "?")
					return true
				})
				return nil
			}
			if err := scan(fn, false); err != nil {
				return "", err
			}
			for _, m := range methods {
				if err := scan(m, true); err != nil {
					return "", err
				}
			}
			return fmt.Sprintf("/-- every use of `%s` in `%s` and of `.%s` in %s -/\ndef %s : List (String × String) := [%s]\n",
				id, fn, id, strings.Join(methods, ", "), s.Name, strings.Join(q, ",\n  ")), nil
		}}
}

func init() {
	mi := []string{"inFlight"}
	register(
		psyncImports("parImports"),
		// ------------------------------------------------------------------------------ MapIterator
		psyncFields("mapIterator", "miFields"),
		psyncCondInit("miCondInit", "mapIterator", []string{"MapIterator", "mapIterator.Next"}),
		// funclit[1] is the dispatcher (funclit[0] the heap comparison, funclit[2] the worker)
		psyncSite("MapIterator", "miDispSync", "funclit[1]", nil, "mapIterator", mi, "dispatcher"),
		psyncSite("MapIterator", "miRestSync", "", []string{"funclit[1]"}, "mapIterator", mi, "everything but the dispatcher (constructor, comparison, workers)"),
		psyncSite("mapIterator.Next", "miNextSync", "", nil, "mapIterator", mi, "consumer"),
		psyncTouchers("miTouchers", []string{"inFlight", "cond"}),
		// ------------------------------------------------------------------------------ MapStream
		psyncAssigns("MapStream", "msCtxAssigns", []string{"ctx", "cancel", "eg"}),
		psyncShadows("MapStream", "msCtxShadows", []string{"ctx", "cancel", "eg"}),
		psyncUses("msCancelUses", "cancel", "MapStream", []string{"mapStream.Next", "mapStream.Close"}),
	)
}
