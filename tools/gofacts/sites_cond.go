package main

// xsync.ContextCond -> Juniper.Gen.Cond. Consumed by Model/Cond.lean (C16).
//
// Besides the two `select` tables and the two channel capacities, the statements of Wait,
// Broadcast and Signal are emitted *classified* (a small inductive per function, declared in the
// generated module itself) so that the model can read the order "snapshot, Unlock, select" and
// "close old, install fresh" off the source; any statement that is not one of the expected forms
// becomes `.other "<text>"` and makes the configuration differ from the one the theorems are
// about.

import (
	"fmt"
	"go/ast"
	"go/token"
	"strings"
)

func init() {
	const pkg = "xsync"
	const mod = "Cond"
	register(
		Site{Module: mod, Pkg: pkg, Kind: Custom, Name: "OpTypes", Custom: func(c *Ctx, s *Site) (string, error) {
			return "/-- a statement of `ContextCond.Wait` / `Signal` / `Broadcast`, classified by gofacts -/\n" +
				"inductive Op where\n" +
				"  | mRLock | mRUnlock | mLock | mUnlock   -- c.m.RLock() ...\n" +
				"  | snap                                  -- ch := c.ch\n" +
				"  | lUnlock | lLock                       -- c.L.Unlock() / c.L.Lock()\n" +
				"  | sel                                   -- a select statement (arms: see the *Arms tables)\n" +
				"  | closeCur                              -- close(c.ch)\n" +
				"  | install                               -- c.ch = make(chan struct{}, <cap>)\n" +
				"  | retNil | retCtxErr                    -- return nil / return ctx.Err()\n" +
				"  | other (text : String)\n" +
				"  deriving DecidableEq, Repr\n", nil
		}},
		// what `c.m`, `c.ch`, `c.L` are (field types, the import behind `sync`), pointer receivers, the constructor
		Site{Module: mod, Pkg: pkg, Name: "condWiring", Kind: Custom, Custom: structWiring("ContextCond", "cond", "Broadcast", "Signal", "Wait")},
		Site{Module: mod, Pkg: pkg, Func: "NewContextCond", Name: "newContextCondStmts", Kind: StmtList, Sel: ""},
		Site{Module: mod, Pkg: pkg, Func: "NewContextCond", Name: "newCap", Kind: Custom, Custom: chanCap},
		Site{Module: mod, Pkg: pkg, Func: "ContextCond.Broadcast", Name: "broadcastCap", Kind: Custom, Custom: chanCap},
		Site{Module: mod, Pkg: pkg, Func: "ContextCond.Signal", Name: "signalArms", Kind: Select, Sel: "select[0]"},
		Site{Module: mod, Pkg: pkg, Func: "ContextCond.Wait", Name: "waitArms", Kind: Select, Sel: "select[0]"},
		Site{Module: mod, Pkg: pkg, Func: "ContextCond.Wait", Name: "waitOps", Kind: Custom, Custom: condOps("")},
		Site{Module: mod, Pkg: pkg, Func: "ContextCond.Signal", Name: "signalOps", Kind: Custom, Custom: condOps("")},
		Site{Module: mod, Pkg: pkg, Func: "ContextCond.Broadcast", Name: "broadcastOps", Kind: Custom, Custom: condOps("")},
		Site{Module: mod, Pkg: pkg, Func: "ContextCond.Wait", Name: "waitArmBodies", Kind: Custom, Custom: condArmBodies},
		Site{Module: mod, Pkg: pkg, Func: "ContextCond.Signal", Name: "signalArmBodies", Kind: Custom, Custom: condArmBodies},
	)
}

// chanCap emits the capacity of the one `make(chan struct{}[, n])` of the function (0 = unbuffered). The
// function must contain exactly one `make`, and that one must be what is stored into the `ch` field (`ch:
// make(…)` in a composite literal or `c.ch = make(…)`): a decoy `_ = make(chan struct{}, 1)` in front of the
// real one (audit C16 F6) is an extraction error.
func chanCap(c *Ctx, s *Site) (string, error) {
	fd, err := c.FindFunc(s.Pkg, s.Func)
	if err != nil {
		return "", err
	}
	n, err := c.SelectPath(fd, "call[make][0]")
	if err != nil {
		return "", err
	}
	call := n.(*ast.CallExpr)
	makes, stored := 0, false
	ast.Inspect(fd.Body, func(x ast.Node) bool {
		switch y := x.(type) {
		case *ast.CallExpr:
			if id, ok := y.Fun.(*ast.Ident); ok && id.Name == "make" {
				makes++
			}
		case *ast.KeyValueExpr:
			if k, ok := y.Key.(*ast.Ident); ok && k.Name == "ch" && y.Value == ast.Expr(call) {
				stored = true
			}
		case *ast.AssignStmt:
			if len(y.Lhs) == 1 && len(y.Rhs) == 1 && c.Text(y.Lhs[0]) == "c.ch" && y.Rhs[0] == ast.Expr(call) && y.Tok == token.ASSIGN {
				stored = true
			}
		}
		return true
	})
	if makes != 1 || !stored {
		return "", fmt.Errorf("%s: expected exactly one make(...), stored into the ch field (found %d make calls, stored into ch: %v)", s.Func, makes, stored)
	}
	if len(call.Args) == 0 || c.Text(call.Args[0]) != "chanstruct{}" {
		return "", fmt.Errorf("first make in %s is not make(chan struct{} ...)", s.Func)
	}
	capTxt := "0"
	if len(call.Args) >= 2 {
		lit, ok := call.Args[1].(*ast.BasicLit)
		if !ok || lit.Kind != token.INT {
			return "", fmt.Errorf("channel capacity in %s is not an integer literal: %s", s.Func, c.Pretty(call.Args[1]))
		}
		capTxt = lit.Value
	}
	return fmt.Sprintf("/-- capacity of `%s` in `%s` (0 = unbuffered) -/\ndef %s : Int := (%s : Int)\n", c.Pretty(call), s.Func, s.Name, capTxt), nil
}

// classifyCondStmt maps one statement of the ContextCond methods to an Op constructor.
func classifyCondStmt(c *Ctx, st ast.Stmt) string {
	txt := c.Text(st)
	switch txt {
	case "c.m.RLock()":
		return ".mRLock"
	case "c.m.RUnlock()":
		return ".mRUnlock"
	case "c.m.Lock()":
		return ".mLock"
	case "c.m.Unlock()":
		return ".mUnlock"
	case "ch:=c.ch":
		return ".snap"
	case "c.L.Unlock()":
		return ".lUnlock"
	case "c.L.Lock()":
		return ".lLock"
	case "close(c.ch)":
		return ".closeCur"
	case "returnnil":
		return ".retNil"
	case "returnctx.Err()":
		return ".retCtxErr"
	}
	if _, ok := st.(*ast.SelectStmt); ok {
		return ".sel"
	}
	if as, ok := st.(*ast.AssignStmt); ok && as.Tok == token.ASSIGN && len(as.Lhs) == 1 && len(as.Rhs) == 1 && c.Text(as.Lhs[0]) == "c.ch" {
		if call, ok := as.Rhs[0].(*ast.CallExpr); ok && c.Text(call.Fun) == "make" && len(call.Args) >= 1 && len(call.Args) <= 2 && c.Text(call.Args[0]) == "chanstruct{}" {
			return ".install"
		}
	}
	return ".other " + leanString(c.Pretty(st))
}

// condOps emits the top-level statements of the function, classified.
func condOps(_ string) func(c *Ctx, s *Site) (string, error) {
	return func(c *Ctx, s *Site) (string, error) {
		fd, err := c.FindFunc(s.Pkg, s.Func)
		if err != nil {
			return "", err
		}
		var ops []string
		for _, st := range fd.Body.List {
			ops = append(ops, classifyCondStmt(c, st))
		}
		return fmt.Sprintf("/-- top-level statements of `%s`, classified -/\ndef %s : List Op := [%s]\n", s.Func, s.Name, strings.Join(ops, ", ")), nil
	}
}

// condArmBodies emits, for the first select of the function, each arm with its classified body.
func condArmBodies(c *Ctx, s *Site) (string, error) {
	fd, err := c.FindFunc(s.Pkg, s.Func)
	if err != nil {
		return "", err
	}
	n, err := c.SelectPath(fd, "select[0]")
	if err != nil {
		return "", err
	}
	sel := n.(*ast.SelectStmt)
	var rows []string
	for _, cl := range sel.Body.List {
		cc := cl.(*ast.CommClause)
		arm, err := c.selectArms(&ast.SelectStmt{Body: &ast.BlockStmt{List: []ast.Stmt{cc}}})
		if err != nil {
			return "", err
		}
		arm = strings.TrimSuffix(strings.TrimPrefix(arm, "["), "]")
		var body []string
		for _, st := range cc.Body {
			body = append(body, classifyCondStmt(c, st))
		}
		rows = append(rows, fmt.Sprintf("(%s, [%s])", arm, strings.Join(body, ", ")))
	}
	return fmt.Sprintf("/-- arms of the select in `%s` with their classified bodies -/\ndef %s : List (Arm × List Op) := [%s]\n", s.Func, s.Name, strings.Join(rows, ",\n  ")), nil
}
