package main

// xtime -> Juniper.Gen.XTime. Consumed by Model/XTime.lean (C20).
//
// SleepContext: the two early-out guards, the `remaining` expression, the timer duration, the
// select table and what every branch returns. JitterTicker: validation guards of
// NewJitterTicker/Reset, tick channel capacity, schedule's `next` expression and the argument of
// rand.Int63n, the gen discipline (bumped in schedule and Stop, compared in the callback), the
// callback's select and the mutex brackets that justify modelling each critical section as one
// atomic step.

import (
	"fmt"
	"go/ast"
	"go/token"
	"strings"
)

// lastReturn classifies what the statement list at the selector returns.
func xtimeRet(sel string) func(c *Ctx, s *Site) (string, error) {
	return func(c *Ctx, s *Site) (string, error) {
		fd, err := c.FindFunc(s.Pkg, s.Func)
		if err != nil {
			return "", err
		}
		n, err := c.SelectPath(fd, sel)
		if err != nil {
			return "", err
		}
		b, ok := n.(*ast.BlockStmt)
		if !ok || len(b.List) == 0 {
			return "", fmt.Errorf("selector %q is not a non-empty block", sel)
		}
		r, ok := b.List[len(b.List)-1].(*ast.ReturnStmt)
		if !ok || len(r.Results) != 1 {
			return "", fmt.Errorf("block at %q does not end in a single-value return", sel)
		}
		txt := c.Text(r.Results[0])
		k := ".other " + leanString(txt)
		switch {
		case txt == "nil":
			k = ".nil"
		case txt == "ctx.Err()":
			k = ".ctxErr"
		case strings.HasPrefix(txt, "DeadlineTooSoonError{"):
			k = ".tooSoon"
		}
		return fmt.Sprintf("/-- `%s` ends `%s` %s -/\ndef %s : Ret := %s\n", c.Pretty(r), s.Func, sel, s.Name, k), nil
	}
}

// xtimeBracket: the statement list at sel (flattened, see stmtList) contains `open` exactly once and
// `close` exactly once, `open` before `close`; every text of inner occurs as a whole statement
// exactly once and strictly between them; and no statement between them leaves the section or
// defers/forks work out of it (`return`, `go`, `defer`, `goto`, `break`, `continue`). Used for "this
// critical section is held under the mutex".
func xtimeBracket(sel, open, close string, inner ...string) func(c *Ctx, s *Site) (string, error) {
	return func(c *Ctx, s *Site) (string, error) {
		fd, err := c.FindFunc(s.Pkg, s.Func)
		if err != nil {
			return "", err
		}
		var scope ast.Node = fd.Body
		if sel != "" {
			scope, err = c.SelectPath(fd, sel)
			if err != nil {
				return "", err
			}
		}
		l := c.stmtList(scope)
		idx := func(want string) (int, int) {
			at, n := -1, 0
			for i, x := range l {
				if stripSpace(x) == stripSpace(want) {
					at = i
					n++
				}
			}
			return at, n
		}
		first, nOpen := idx(open)
		last, nClose := idx(close)
		ok := nOpen == 1 && nClose == 1 && first < last
		for _, want := range inner {
			at, n := idx(want)
			if n != 1 || !(at > first && at < last) {
				ok = false
			}
		}
		if ok {
			for _, x := range l[first+1 : last] {
				for _, kw := range []string{"return", "go ", "defer ", "goto ", "break", "continue"} {
					if strings.HasPrefix(x, kw) {
						ok = false
					}
				}
			}
		}
		return fmt.Sprintf("/-- in `%s` %s: `%s` … %v … `%s` -/\ndef %s : Bool := %v\n", s.Func, sel, open, inner, close, s.Name, ok), nil
	}
}

// ---------------------------------------------------------------------------------------------
// schedule(): the arithmetic that leads from (t.d, t.jitter, the random draw) to the duration handed
// to time.AfterFunc, translated with Go's fixed-width semantics: every + - * / of int64 operands
// (time.Duration is an int64) is rendered `wrap64 (…)`, of uint64 operands `wrapU64 (…)`, conversions
// between the two likewise; untyped constant arithmetic is exact (as in Go).
//
// Accepted shape of the body of schedule (anything else is an extraction error = broken tie):
//
//	if t.timer != nil { t.timer.Stop() }          (own facts: schedStopsOld)
//	<arithmetic>*                                 (translated here)
//	t.gen++                                       (schedBumpsGen)
//	gen := t.gen                                  (schedCapturesGen)
//	t.timer = time.AfterFunc(<expr>, func() {…})  (<expr> translated here; the closure: cb* facts)
//
// <arithmetic> is one of
//
//	var x uint64 | var x int64 | var x time.Duration
//	x := e | x = e
//	if c { x = e }  |  if c { A } else { B }      with A, B one statement each: `x = e` or
//	for x = rand.Uint64(); c; x = rand.Uint64() { }   (rejection sampling, empty body)
//
// and e, c are built from t.d, t.jitter, locals, integer literals, math.MaxInt64, + - * /,
// comparisons, the conversions uint64() int64() time.Duration(), and at most one rand.Int63n(e).
// The value delivered by the random source (the result of rand.Int63n, or the accepted result of
// rand.Uint64) is the parameter `rho` of the emitted `schedNext`.

type xtTy int

const (
	xtConst xtTy = iota // untyped integer constant
	xtI64
	xtU64
	xtBool
)

func (t xtTy) String() string { return [...]string{"untyped const", "int64", "uint64", "bool"}[t] }

type xtArith struct {
	c     *Ctx
	vars  map[string]string // Go text -> Lean term
	types map[string]xtTy
	path  string // Lean Bool term: condition of the path being translated
	// what was found
	int63nPath, int63nBound string
	uint64Path, rejects     string
	randCalls               []string
}

func xtUnify(a, b xtTy) (xtTy, error) {
	switch {
	case a == xtBool || b == xtBool:
		return 0, fmt.Errorf("arithmetic/comparison on bool")
	case a == xtConst:
		return b, nil
	case b == xtConst || a == b:
		return a, nil
	}
	return 0, fmt.Errorf("mixed operand types %s and %s", a, b)
}

func xtWrap(t xtTy, term string) string {
	switch t {
	case xtI64:
		return "(wrap64 " + term + ")"
	case xtU64:
		return "(wrapU64 " + term + ")"
	}
	return term
}

func (e *xtArith) tr(x ast.Expr) (string, xtTy, error) {
	txt := e.c.Text(x)
	if v, ok := e.vars[txt]; ok {
		return v, e.types[txt], nil
	}
	switch n := x.(type) {
	case *ast.ParenExpr:
		return e.tr(n.X)
	case *ast.BasicLit:
		if n.Kind != token.INT {
			return "", 0, fmt.Errorf("unsupported literal %s", txt)
		}
		return "(" + n.Value + " : Int)", xtConst, nil
	case *ast.BinaryExpr:
		a, ta, err := e.tr(n.X)
		if err != nil {
			return "", 0, err
		}
		b, tb, err := e.tr(n.Y)
		if err != nil {
			return "", 0, err
		}
		t, err := xtUnify(ta, tb)
		if err != nil {
			return "", 0, fmt.Errorf("%s: %v", txt, err)
		}
		switch n.Op {
		case token.ADD, token.SUB, token.MUL:
			return xtWrap(t, "("+a+" "+n.Op.String()+" "+b+")"), t, nil
		case token.QUO:
			return xtWrap(t, "(Int.tdiv "+a+" "+b+")"), t, nil
		case token.LSS, token.LEQ, token.GTR, token.GEQ, token.EQL:
			lop := map[token.Token]string{token.LSS: "<", token.LEQ: "≤", token.GTR: ">", token.GEQ: "≥", token.EQL: "="}[n.Op]
			return "(decide (" + a + " " + lop + " " + b + "))", xtBool, nil
		}
		return "", 0, fmt.Errorf("unsupported operator %s in %s", n.Op, txt)
	case *ast.CallExpr:
		fn := e.c.Text(n.Fun)
		switch fn {
		case "uint64", "int64", "time.Duration":
			if len(n.Args) != 1 {
				return "", 0, fmt.Errorf("bad conversion %s", txt)
			}
			a, ta, err := e.tr(n.Args[0])
			if err != nil {
				return "", 0, err
			}
			to := xtI64
			if fn == "uint64" {
				to = xtU64
			}
			if ta == xtBool {
				return "", 0, fmt.Errorf("conversion of bool %s", txt)
			}
			if ta == to || ta == xtConst { // same representation / a constant the compiler checked to fit
				return a, to, nil
			}
			return xtWrap(to, a), to, nil
		case "rand.Int63n":
			if len(n.Args) != 1 || e.int63nPath != "" {
				return "", 0, fmt.Errorf("more than one rand.Int63n call, or bad arguments: %s", txt)
			}
			b, tb, err := e.tr(n.Args[0])
			if err != nil {
				return "", 0, err
			}
			if tb != xtI64 && tb != xtConst {
				return "", 0, fmt.Errorf("rand.Int63n argument is %s", tb)
			}
			e.int63nPath, e.int63nBound = e.path, b
			e.randCalls = append(e.randCalls, fn)
			return "(int63n rho " + b + ")", xtI64, nil
		}
		return "", 0, fmt.Errorf("unmapped call %s", txt)
	}
	return "", 0, fmt.Errorf("unsupported expression %s", txt)
}

// isRandUint64Assign: `x = rand.Uint64()`
func (e *xtArith) isRandUint64Assign(st ast.Stmt) (string, bool) {
	a, ok := st.(*ast.AssignStmt)
	if !ok || a.Tok != token.ASSIGN || len(a.Lhs) != 1 || len(a.Rhs) != 1 {
		return "", false
	}
	id, ok := a.Lhs[0].(*ast.Ident)
	if !ok || e.c.Text(a.Rhs[0]) != "rand.Uint64()" {
		return "", false
	}
	return id.Name, true
}

// branch translates the single statement of an if-branch: the variable it assigns and its new value.
func (e *xtArith) branch(list []ast.Stmt, cond string) (string, string, error) {
	if len(list) != 1 {
		return "", "", fmt.Errorf("an if-branch of schedule's arithmetic must be a single statement")
	}
	saved := e.path
	e.path = cond
	defer func() { e.path = saved }()
	switch st := list[0].(type) {
	case *ast.AssignStmt:
		id, ok := st.Lhs[0].(*ast.Ident)
		if !ok || st.Tok != token.ASSIGN || len(st.Lhs) != 1 || len(st.Rhs) != 1 {
			return "", "", fmt.Errorf("unsupported assignment %s", e.c.Pretty(st))
		}
		want, declared := e.types[id.Name]
		if !declared {
			return "", "", fmt.Errorf("assignment to undeclared %s", id.Name)
		}
		v, t, err := e.tr(st.Rhs[0])
		if err != nil {
			return "", "", err
		}
		if t != want && t != xtConst {
			return "", "", fmt.Errorf("%s: %s assigned to %s variable", e.c.Pretty(st), t, want)
		}
		return id.Name, v, nil
	case *ast.ForStmt:
		x, ok1 := e.isRandUint64Assign(st.Init)
		y, ok2 := e.isRandUint64Assign(st.Post)
		if !ok1 || !ok2 || x != y || st.Cond == nil || len(st.Body.List) != 0 || e.types[x] != xtU64 || e.uint64Path != "" {
			return "", "", fmt.Errorf("unsupported loop %s", e.c.Pretty(st))
		}
		// the loop condition speaks about the value just drawn
		old := e.vars[x]
		e.vars[x] = "r"
		c, t, err := e.tr(st.Cond)
		e.vars[x] = old
		if err != nil {
			return "", "", err
		}
		if t != xtBool {
			return "", "", fmt.Errorf("loop condition is not a bool")
		}
		e.uint64Path, e.rejects = e.path, c
		e.randCalls = append(e.randCalls, "rand.Uint64", "rand.Uint64")
		return x, "rho", nil
	}
	return "", "", fmt.Errorf("unsupported statement %s", e.c.Pretty(list[0]))
}

func xtimeSchedArith(c *Ctx, s *Site) (string, error) {
	fd, err := c.FindFunc(s.Pkg, s.Func)
	if err != nil {
		return "", err
	}
	body := fd.Body.List
	n := len(body)
	if n < 4 || c.Text(body[0]) != "ift.timer!=nil{t.timer.Stop()}" || c.Text(body[n-3]) != "t.gen++" || c.Text(body[n-2]) != "gen:=t.gen" {
		return "", fmt.Errorf("schedule does not have the shape `if t.timer != nil { t.timer.Stop() }; …; t.gen++; gen := t.gen; t.timer = time.AfterFunc(…)`")
	}
	last, ok := body[n-1].(*ast.AssignStmt)
	var after *ast.CallExpr
	if ok && len(last.Lhs) == 1 && len(last.Rhs) == 1 && last.Tok == token.ASSIGN && c.Text(last.Lhs[0]) == "t.timer" {
		after, _ = last.Rhs[0].(*ast.CallExpr)
	}
	if after == nil || c.Text(after.Fun) != "time.AfterFunc" || len(after.Args) != 2 {
		return "", fmt.Errorf("schedule does not end in `t.timer = time.AfterFunc(d, f)`")
	}
	if _, isLit := after.Args[1].(*ast.FuncLit); !isLit {
		return "", fmt.Errorf("the callback of time.AfterFunc is not a function literal")
	}
	e := &xtArith{c: c, path: "true",
		vars:  map[string]string{"t.d": "d", "t.jitter": "jitter", "math.MaxInt64": "maxInt64"},
		types: map[string]xtTy{"t.d": xtI64, "t.jitter": xtI64, "math.MaxInt64": xtConst}}
	var lets []string
	bind := func(name, v string) {
		e.vars[name] = name
		lets = append(lets, "let "+name+" := "+v)
	}
	for _, st := range body[1 : n-3] {
		switch x := st.(type) {
		case *ast.DeclStmt:
			gd, ok := x.Decl.(*ast.GenDecl)
			if !ok || gd.Tok != token.VAR || len(gd.Specs) != 1 {
				return "", fmt.Errorf("unsupported declaration %s", c.Pretty(st))
			}
			vs := gd.Specs[0].(*ast.ValueSpec)
			if len(vs.Names) != 1 || len(vs.Values) != 0 || vs.Type == nil {
				return "", fmt.Errorf("unsupported declaration %s", c.Pretty(st))
			}
			ty, ok := map[string]xtTy{"uint64": xtU64, "int64": xtI64, "time.Duration": xtI64}[c.Text(vs.Type)]
			if !ok {
				return "", fmt.Errorf("unsupported type in %s", c.Pretty(st))
			}
			e.types[vs.Names[0].Name] = ty
			bind(vs.Names[0].Name, "(0 : Int)")
		case *ast.AssignStmt:
			id, ok := x.Lhs[0].(*ast.Ident)
			if !ok || len(x.Lhs) != 1 || len(x.Rhs) != 1 || (x.Tok != token.DEFINE && x.Tok != token.ASSIGN) {
				return "", fmt.Errorf("unsupported assignment %s", c.Pretty(st))
			}
			v, t, err := e.tr(x.Rhs[0])
			if err != nil {
				return "", err
			}
			if t == xtBool {
				return "", fmt.Errorf("bool variable in %s", c.Pretty(st))
			}
			if x.Tok == token.DEFINE {
				if t == xtConst {
					t = xtI64 // an untyped integer constant defaults to int
				}
				e.types[id.Name] = t
			} else if want, declared := e.types[id.Name]; !declared || (t != want && t != xtConst) {
				return "", fmt.Errorf("%s: %s assigned to %s", c.Pretty(st), t, id.Name)
			}
			bind(id.Name, v)
		case *ast.IfStmt:
			if x.Init != nil {
				return "", fmt.Errorf("if with init unsupported")
			}
			cnd, t, err := e.tr(x.Cond)
			if err != nil {
				return "", err
			}
			if t != xtBool {
				return "", fmt.Errorf("non-bool condition %s", c.Pretty(x.Cond))
			}
			pathThen, pathElse := cnd, "(!"+cnd+")"
			if e.path != "true" {
				return "", fmt.Errorf("nested if unsupported")
			}
			v1, e1, err := e.branch(x.Body.List, pathThen)
			if err != nil {
				return "", err
			}
			if x.Else == nil {
				bind(v1, "if "+cnd+" then "+e1+" else "+v1)
				continue
			}
			eb, ok := x.Else.(*ast.BlockStmt)
			if !ok {
				return "", fmt.Errorf("else-if unsupported")
			}
			v2, e2, err := e.branch(eb.List, pathElse)
			if err != nil {
				return "", err
			}
			if v1 != v2 {
				return "", fmt.Errorf("the two branches assign different variables (%s, %s)", v1, v2)
			}
			bind(v1, "if "+cnd+" then "+e1+" else "+e2)
		default:
			return "", fmt.Errorf("unsupported statement in schedule's arithmetic: %s", c.Pretty(st))
		}
	}
	res, t, err := e.tr(after.Args[0])
	if err != nil {
		return "", err
	}
	if t != xtI64 {
		return "", fmt.Errorf("argument of time.AfterFunc is %s", t)
	}
	// every call of math/rand in schedule (outside the closure) must be one that was recognised
	nRand := 0
	ast.Inspect(fd.Body, func(x ast.Node) bool {
		if _, isLit := x.(*ast.FuncLit); isLit {
			return false
		}
		if ce, ok := x.(*ast.CallExpr); ok && strings.HasPrefix(c.Text(ce.Fun), "rand.") {
			nRand++
		}
		return true
	})
	if nRand != len(e.randCalls) {
		return "", fmt.Errorf("schedule calls math/rand %d times, %d of them in a recognised position", nRand, len(e.randCalls))
	}
	or := func(v, dflt string) string {
		if v == "" {
			return dflt
		}
		return v
	}
	var b strings.Builder
	fmt.Fprintf(&b, "/-- condition (on the path through `schedule`) under which `rand.Int63n` is called; `false`: never -/\ndef schedUsesInt63n (jitter : Int) : Bool := %s\n\n", or(e.int63nPath, "false"))
	fmt.Fprintf(&b, "/-- the argument of `rand.Int63n` (int64 arithmetic) -/\ndef schedRandBound (jitter : Int) : Int := %s\n\n", or(e.int63nBound, "(1 : Int)"))
	fmt.Fprintf(&b, "/-- condition under which the value is drawn by the loop `for r = rand.Uint64(); <schedRejects>; r = rand.Uint64() {}`; `false`: there is no such loop -/\ndef schedUsesUint64 (jitter : Int) : Bool := %s\n\n", or(e.uint64Path, "false"))
	fmt.Fprintf(&b, "/-- condition of that loop: the value `r` just drawn is thrown away and another one is drawn (uint64 arithmetic) -/\ndef schedRejects (jitter : Int) (r : Int) : Bool := %s\n\n", or(e.rejects, "false"))
	fmt.Fprintf(&b, "/-- the duration `%s` handed to `time.AfterFunc`, as a function of `t.d`, `t.jitter` and the value `rho`\ndelivered by the random source (result of `rand.Int63n` / accepted result of `rand.Uint64`): the statements of\n`schedule` between `t.timer.Stop()` and `t.gen++` with Go's int64 / uint64 arithmetic -/\ndef schedNext (d : Int) (jitter : Int) (rho : Int) : Int :=\n", c.Pretty(after.Args[0]))
	for _, l := range lets {
		b.WriteString("  " + l + "\n")
	}
	b.WriteString("  " + res + "\n\n")
	q := make([]string, len(e.randCalls))
	for i, x := range e.randCalls {
		q[i] = leanString(x)
	}
	fmt.Fprintf(&b, "/-- the calls of math/rand in `schedule`, in source order (each in a recognised position) -/\ndef schedRandCalls : List String := [%s]\n", strings.Join(q, ", "))
	return b.String(), nil
}

func init() {
	const pkg = "xtime"
	const mod = "XTime"
	calls := map[string]string{
		"time.Until":    "timeUntil now",
		"time.Duration": "conv",
		"int64":         "conv",
		"rand.Int63n":   "int63n r",
	}
	e := func(fn, name, sel, typ string, ps []Param, vars map[string]string) Site {
		return Site{Module: mod, Pkg: pkg, Func: fn, Name: name, Kind: Expr, Sel: sel, Type: typ, Params: ps, Vars: vars, Calls: calls}
	}
	dj := []Param{{"d", "Int"}, {"jitter", "Int"}}
	djv := map[string]string{"d": "d", "jitter": "jitter"}
	tv := map[string]string{"t.d": "d", "t.jitter": "jitter", "t.gen": "tgen", "gen": "gen", "next": "next"}
	register(
		Site{Module: mod, Name: "preamble", Kind: Custom, Custom: func(c *Ctx, s *Site) (string, error) {
			return `/-- What a branch of SleepContext returns. -/
inductive Ret where
  | nil | tooSoon | ctxErr | other (e : String)
  deriving DecidableEq, Repr

/-- trusted library semantics: time.Until(deadline) evaluated at the instant now. -/
def timeUntil (now deadline : Int) : Int := deadline - now
/-- rand.Int63n(n) returned r; the model demands 0 < n (else panic) and 0 ≤ r < n. -/
def int63n (r n : Int) : Int := r
/-- time.Duration(x) / int64(x) in SleepContext and the validation guards: the same integer (no arithmetic there). -/
def conv (x : Int) : Int := x
`, nil
		}},
		// SleepContext
		e("SleepContext", "sleepNonPositive", "if[0].cond", "Bool", []Param{{"d", "Int"}}, map[string]string{"d": "d"}),
		e("SleepContext", "sleepChecksDeadline", "if[1].cond", "Bool", []Param{{"ok", "Bool"}}, map[string]string{"ok": "ok"}),
		e("SleepContext", "sleepRemaining", "assign[remaining][0].rhs", "Int", []Param{{"now", "Int"}, {"deadline", "Int"}}, map[string]string{"deadline": "deadline"}),
		e("SleepContext", "sleepTooSoon", "if[1].body/if[0].cond", "Bool", []Param{{"remaining", "Int"}, {"d", "Int"}}, map[string]string{"remaining": "remaining", "d": "d"}),
		e("SleepContext", "sleepTimerDur", "call[time.NewTimer][0].arg[0]", "Int", []Param{{"d", "Int"}}, map[string]string{"d": "d"}),
		Site{Module: mod, Pkg: pkg, Func: "SleepContext", Name: "sleepSelect", Kind: Select, Sel: "select[0]"},
		Site{Module: mod, Pkg: pkg, Func: "SleepContext", Name: "sleepNonPositiveRet", Kind: Custom, Custom: xtimeRet("if[0].body")},
		Site{Module: mod, Pkg: pkg, Func: "SleepContext", Name: "sleepTooSoonRet", Kind: Custom, Custom: xtimeRet("if[1].body/if[0].body")},
		Site{Module: mod, Pkg: pkg, Func: "SleepContext", Name: "sleepArm0Ret", Kind: Custom, Custom: xtimeRet("select[0]/case[0].body")},
		Site{Module: mod, Pkg: pkg, Func: "SleepContext", Name: "sleepArm1Ret", Kind: Custom, Custom: xtimeRet("select[0]/case[1].body")},
		// NewJitterTicker / Reset
		e("NewJitterTicker", "newPanicsD", "if[0].cond", "Bool", dj, djv),
		e("NewJitterTicker", "newPanicsJ", "if[1].cond", "Bool", dj, djv),
		e("NewJitterTicker", "tickChanCap", "call[make][0].arg[1]", "Int", nil, nil),
		Site{Module: mod, Pkg: pkg, Func: "NewJitterTicker", Name: "newLocked", Kind: Custom,
			Custom: xtimeBracket("", "t.m.Lock()", "t.m.Unlock()", "t.schedule()")},
		e("JitterTicker.Reset", "resetPanicsD", "if[0].cond", "Bool", dj, djv),
		e("JitterTicker.Reset", "resetPanicsJ", "if[1].cond", "Bool", dj, djv),
		Site{Module: mod, Pkg: pkg, Func: "JitterTicker.Reset", Name: "resetLocked", Kind: Custom,
			Custom: xtimeBracket("", "t.m.Lock()", "t.m.Unlock()", "t.d = d", "t.jitter = jitter", "t.schedule()")},
		Site{Module: mod, Pkg: pkg, Func: "JitterTicker.Reset", Name: "resetStmts", Kind: StmtList},
		// schedule
		Site{Module: mod, Pkg: pkg, Func: "JitterTicker.schedule", Name: "schedStopsOld", Kind: Present, Sel: "if[0].body", Text: "t.timer.Stop()"},
		Site{Module: mod, Pkg: pkg, Func: "JitterTicker.schedule", Name: "schedNext", Kind: Custom, Custom: xtimeSchedArith},
		Site{Module: mod, Pkg: pkg, Func: "JitterTicker.schedule", Name: "schedBumpsGen", Kind: Count, Text: "t.gen++"},
		Site{Module: mod, Pkg: pkg, Func: "JitterTicker.schedule", Name: "schedCapturesGen", Kind: Custom,
			Custom: xtimeBracket("", "t.gen++", "gen := t.gen")},
		// the timer callback
		e("JitterTicker.schedule", "cbGenOk", "funclit[0].body/if[0].cond", "Bool", []Param{{"tgen", "Int"}, {"gen", "Int"}}, tv),
		Site{Module: mod, Pkg: pkg, Func: "JitterTicker.schedule", Name: "cbSelect", Kind: Select, Sel: "funclit[0].body/if[0].body/select[0]"},
		Site{Module: mod, Pkg: pkg, Func: "JitterTicker.schedule", Name: "cbStmts", Kind: StmtList, Sel: "funclit[0].body"},
		// Stop
		Site{Module: mod, Pkg: pkg, Func: "JitterTicker.Stop", Name: "stopStopsTimer", Kind: Present, Text: "t.timer.Stop()"},
		Site{Module: mod, Pkg: pkg, Func: "JitterTicker.Stop", Name: "stopBumpsGen", Kind: Count, Text: "t.gen++"},
		Site{Module: mod, Pkg: pkg, Func: "JitterTicker.Stop", Name: "stopClearsTimer", Kind: Present, Text: "t.timer = nil"},
		Site{Module: mod, Pkg: pkg, Func: "JitterTicker.Stop", Name: "stopLocked", Kind: Custom,
			Custom: xtimeBracket("", "t.m.Lock()", "t.m.Unlock()", "t.timer.Stop()", "t.gen++", "t.timer = nil")},
		Site{Module: mod, Pkg: pkg, Func: "JitterTicker.Stop", Name: "stopStmts", Kind: StmtList},
	)
}
