package main

// xtime -> Juniper.Gen.XTime. Consumed by Model/XTime.lean (C20).
//
// SleepContext: the two early-out guards, the `remaining` expression, the timer duration, the
// select table and what every branch returns. JitterTicker: validation guards of
// NewJitterTicker/Reset, tick channel capacity, schedule's `next` expression and the argument of
// rand.Int63n, the gen discipline (bumped in schedule and Stop, compared in the callback), the
// callback's select and the mutex brackets that justify modelling each critical section as one
// atomic step.

import (
	"fmt"
	"go/ast"
	"strings"
)

// lastReturn classifies what the statement list at the selector returns.
func xtimeRet(sel string) func(c *Ctx, s *Site) (string, error) {
	return func(c *Ctx, s *Site) (string, error) {
		fd, err := c.FindFunc(s.Pkg, s.Func)
		if err != nil {
			return "", err
		}
		n, err := c.SelectPath(fd, sel)
		if err != nil {
			return "", err
		}
		b, ok := n.(*ast.BlockStmt)
		if !ok || len(b.List) == 0 {
			return "", fmt.Errorf("selector %q is not a non-empty block", sel)
		}
		r, ok := b.List[len(b.List)-1].(*ast.ReturnStmt)
		if !ok || len(r.Results) != 1 {
			return "", fmt.Errorf("block at %q does not end in a single-value return", sel)
		}
		txt := c.Text(r.Results[0])
		k := ".other " + leanString(txt)
		switch {
		case txt == "nil":
			k = ".nil"
		case txt == "ctx.Err()":
			k = ".ctxErr"
		case strings.HasPrefix(txt, "DeadlineTooSoonError{"):
			k = ".tooSoon"
		}
		return fmt.Sprintf("/-- `%s` ends `%s` %s -/\ndef %s : Ret := %s\n", c.Pretty(r), s.Func, sel, s.Name, k), nil
	}
}

// xtimeBracket: within the statement list at sel (flattened, see stmtList) `open` occurs, `close`
// occurs after it, and every text of inner occurs strictly between the first `open` and the last
// `close`. Used for "this critical section is held under the mutex".
func xtimeBracket(sel, open, close string, inner ...string) func(c *Ctx, s *Site) (string, error) {
	return func(c *Ctx, s *Site) (string, error) {
		fd, err := c.FindFunc(s.Pkg, s.Func)
		if err != nil {
			return "", err
		}
		var scope ast.Node = fd.Body
		if sel != "" {
			scope, err = c.SelectPath(fd, sel)
			if err != nil {
				return "", err
			}
		}
		l := c.stmtList(scope)
		first, last := -1, -1
		for i, x := range l {
			if stripSpace(x) == stripSpace(open) && first < 0 {
				first = i
			}
			if stripSpace(x) == stripSpace(close) {
				last = i
			}
		}
		ok := first >= 0 && last > first
		for _, want := range inner {
			found := false
			for i, x := range l {
				if strings.Contains(stripSpace(x), stripSpace(want)) {
					found = true
					if !(i > first && i < last) {
						ok = false
					}
				}
			}
			if !found {
				ok = false
			}
		}
		return fmt.Sprintf("/-- in `%s` %s: `%s` … %v … `%s` -/\ndef %s : Bool := %v\n", s.Func, sel, open, inner, close, s.Name, ok), nil
	}
}

func init() {
	const pkg = "xtime"
	const mod = "XTime"
	calls := map[string]string{
		"time.Until":    "timeUntil now",
		"time.Duration": "conv",
		"int64":         "conv",
		"rand.Int63n":   "int63n r",
	}
	e := func(fn, name, sel, typ string, ps []Param, vars map[string]string) Site {
		return Site{Module: mod, Pkg: pkg, Func: fn, Name: name, Kind: Expr, Sel: sel, Type: typ, Params: ps, Vars: vars, Calls: calls}
	}
	dj := []Param{{"d", "Int"}, {"jitter", "Int"}}
	djv := map[string]string{"d": "d", "jitter": "jitter"}
	tv := map[string]string{"t.d": "d", "t.jitter": "jitter", "t.gen": "tgen", "gen": "gen", "next": "next"}
	register(
		Site{Module: mod, Name: "preamble", Kind: Custom, Custom: func(c *Ctx, s *Site) (string, error) {
			return `/-- What a branch of SleepContext returns. -/
inductive Ret where
  | nil | tooSoon | ctxErr | other (e : String)
  deriving DecidableEq, Repr

/-- trusted library semantics: time.Until(deadline) evaluated at the instant now. -/
def timeUntil (now deadline : Int) : Int := deadline - now
/-- rand.Int63n(n) returned r; the model demands 0 < n (else panic) and 0 ≤ r < n. -/
def int63n (r n : Int) : Int := r
/-- time.Duration(x) / int64(x): the same integer. -/
def conv (x : Int) : Int := x
`, nil
		}},
		// SleepContext
		e("SleepContext", "sleepNonPositive", "if[0].cond", "Bool", []Param{{"d", "Int"}}, map[string]string{"d": "d"}),
		e("SleepContext", "sleepChecksDeadline", "if[1].cond", "Bool", []Param{{"ok", "Bool"}}, map[string]string{"ok": "ok"}),
		e("SleepContext", "sleepRemaining", "assign[remaining][0].rhs", "Int", []Param{{"now", "Int"}, {"deadline", "Int"}}, map[string]string{"deadline": "deadline"}),
		e("SleepContext", "sleepTooSoon", "if[1].body/if[0].cond", "Bool", []Param{{"remaining", "Int"}, {"d", "Int"}}, map[string]string{"remaining": "remaining", "d": "d"}),
		e("SleepContext", "sleepTimerDur", "call[time.NewTimer][0].arg[0]", "Int", []Param{{"d", "Int"}}, map[string]string{"d": "d"}),
		Site{Module: mod, Pkg: pkg, Func: "SleepContext", Name: "sleepSelect", Kind: Select, Sel: "select[0]"},
		Site{Module: mod, Pkg: pkg, Func: "SleepContext", Name: "sleepNonPositiveRet", Kind: Custom, Custom: xtimeRet("if[0].body")},
		Site{Module: mod, Pkg: pkg, Func: "SleepContext", Name: "sleepTooSoonRet", Kind: Custom, Custom: xtimeRet("if[1].body/if[0].body")},
		Site{Module: mod, Pkg: pkg, Func: "SleepContext", Name: "sleepArm0Ret", Kind: Custom, Custom: xtimeRet("select[0]/case[0].body")},
		Site{Module: mod, Pkg: pkg, Func: "SleepContext", Name: "sleepArm1Ret", Kind: Custom, Custom: xtimeRet("select[0]/case[1].body")},
		// NewJitterTicker / Reset
		e("NewJitterTicker", "newPanicsD", "if[0].cond", "Bool", dj, djv),
		e("NewJitterTicker", "newPanicsJ", "if[1].cond", "Bool", dj, djv),
		e("NewJitterTicker", "tickChanCap", "call[make][0].arg[1]", "Int", nil, nil),
		Site{Module: mod, Pkg: pkg, Func: "NewJitterTicker", Name: "newLocked", Kind: Custom,
			Custom: xtimeBracket("", "t.m.Lock()", "t.m.Unlock()", "t.schedule()")},
		e("JitterTicker.Reset", "resetPanicsD", "if[0].cond", "Bool", dj, djv),
		e("JitterTicker.Reset", "resetPanicsJ", "if[1].cond", "Bool", dj, djv),
		Site{Module: mod, Pkg: pkg, Func: "JitterTicker.Reset", Name: "resetLocked", Kind: Custom,
			Custom: xtimeBracket("", "t.m.Lock()", "t.m.Unlock()", "t.d = d", "t.jitter = jitter", "t.schedule()")},
		Site{Module: mod, Pkg: pkg, Func: "JitterTicker.Reset", Name: "resetStmts", Kind: StmtList},
		// schedule
		Site{Module: mod, Pkg: pkg, Func: "JitterTicker.schedule", Name: "schedStopsOld", Kind: Present, Sel: "if[0].body", Text: "t.timer.Stop()"},
		e("JitterTicker.schedule", "schedRandBound", "call[rand.Int63n][0].arg[0]", "Int", []Param{{"jitter", "Int"}}, tv),
		e("JitterTicker.schedule", "schedNext", "assign[next][0].rhs", "Int", []Param{{"d", "Int"}, {"jitter", "Int"}, {"r", "Int"}}, tv),
		Site{Module: mod, Pkg: pkg, Func: "JitterTicker.schedule", Name: "schedRandCalls", Kind: Custom, Custom: func(c *Ctx, s *Site) (string, error) {
			fd, err := c.FindFunc(s.Pkg, s.Func)
			if err != nil {
				return "", err
			}
			n := 0
			ast.Inspect(fd.Body, func(x ast.Node) bool {
				if ce, ok := x.(*ast.CallExpr); ok && strings.HasPrefix(c.Text(ce.Fun), "rand.") {
					n++
				}
				return true
			})
			return fmt.Sprintf("/-- number of `rand.*` calls in `schedule` -/\ndef %s : Nat := %d\n", s.Name, n), nil
		}},
		Site{Module: mod, Pkg: pkg, Func: "JitterTicker.schedule", Name: "schedBumpsGen", Kind: Count, Text: "t.gen++"},
		Site{Module: mod, Pkg: pkg, Func: "JitterTicker.schedule", Name: "schedCapturesGen", Kind: Custom,
			Custom: xtimeBracket("", "t.gen++", "gen := t.gen")},
		e("JitterTicker.schedule", "schedTimerDur", "call[time.AfterFunc][0].arg[0]", "Int", []Param{{"next", "Int"}}, tv),
		// the timer callback
		e("JitterTicker.schedule", "cbGenOk", "funclit[0].body/if[0].cond", "Bool", []Param{{"tgen", "Int"}, {"gen", "Int"}}, tv),
		Site{Module: mod, Pkg: pkg, Func: "JitterTicker.schedule", Name: "cbSelect", Kind: Select, Sel: "funclit[0].body/if[0].body/select[0]"},
		Site{Module: mod, Pkg: pkg, Func: "JitterTicker.schedule", Name: "cbLocked", Kind: Custom,
			Custom: xtimeBracket("funclit[0].body", "t.m.Lock()", "t.m.Unlock()", "t.c <- time.Now()", "t.schedule()")},
		Site{Module: mod, Pkg: pkg, Func: "JitterTicker.schedule", Name: "cbStmts", Kind: StmtList, Sel: "funclit[0].body"},
		// Stop
		Site{Module: mod, Pkg: pkg, Func: "JitterTicker.Stop", Name: "stopStopsTimer", Kind: Present, Text: "t.timer.Stop()"},
		Site{Module: mod, Pkg: pkg, Func: "JitterTicker.Stop", Name: "stopBumpsGen", Kind: Count, Text: "t.gen++"},
		Site{Module: mod, Pkg: pkg, Func: "JitterTicker.Stop", Name: "stopClearsTimer", Kind: Present, Text: "t.timer = nil"},
		Site{Module: mod, Pkg: pkg, Func: "JitterTicker.Stop", Name: "stopLocked", Kind: Custom,
			Custom: xtimeBracket("", "t.m.Lock()", "t.m.Unlock()", "t.timer.Stop()", "t.gen++", "t.timer = nil")},
		Site{Module: mod, Pkg: pkg, Func: "JitterTicker.Stop", Name: "stopStmts", Kind: StmtList},
	)
}
