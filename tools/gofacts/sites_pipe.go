package main

// stream.Pipe (stream/stream.go) -> Juniper.Gen.Pipe. Consumed by Model/Pipe.lean (C10, C08 clauses).
//
// What is regenerated:
//   - the arm tables of the four `select` statements (Send, TrySend x2, pipeStream.Next) and, per arm,
//     the statements of its body (which value the call returns when that arm fires);
//   - whether the `<-s.senderDone` arm of pipeStream.Next contains a nested non-blocking `select`
//     (the drain of D11) and that select's arm table;
//   - the capacity expression of the data channel and that the two broadcast channels are unbuffered;
//   - which local of Pipe is wired to which field of the sender / receiver struct;
//   - the statements of PipeSender.Close and pipeStream.Close.

import (
	"fmt"
	"go/ast"
	"go/token"
	"sort"
	"strings"
)

func init() {
	const pkg = "stream"
	const mod = "Pipe"

	// armBodies: List (Arm × List String) for the k-th select of a function.
	armBodies := func(fn, name, sel string) Site {
		return Site{Module: mod, Pkg: pkg, Func: fn, Name: name, Kind: Custom, Sel: sel,
			Custom: func(c *Ctx, s *Site) (string, error) {
				fd, err := c.FindFunc(s.Pkg, s.Func)
				if err != nil {
					return "", err
				}
				n, err := c.SelectPath(fd, s.Sel)
				if err != nil {
					return "", err
				}
				t, err := c.selectArmBodies(n)
				if err != nil {
					return "", err
				}
				return fmt.Sprintf("/-- arm ↦ statements of its body, select `%s` in `%s` -/\ndef %s : List (Arm × List String) := %s\n", s.Sel, s.Func, s.Name, t), nil
			}}
	}

	// the nested select inside the `<-s.senderDone` arm of pipeStream.Next (absent before the D11 fix)
	findDrain := func(c *Ctx, s *Site) (*ast.SelectStmt, []ast.Stmt, error) {
		fd, err := c.FindFunc(s.Pkg, s.Func)
		if err != nil {
			return nil, nil, err
		}
		n, err := c.SelectPath(fd, "select[0]")
		if err != nil {
			return nil, nil, err
		}
		sel := n.(*ast.SelectStmt)
		for _, cl := range sel.Body.List {
			cc := cl.(*ast.CommClause)
			es, ok := cc.Comm.(*ast.ExprStmt)
			if !ok {
				continue
			}
			u, ok := es.X.(*ast.UnaryExpr)
			if !ok || u.Op != token.ARROW || c.Text(u.X) != "s.senderDone" {
				continue
			}
			// the drain must be the first statement of the arm: anything evaluated before it (e.g.
			// an early return) would bypass it
			if len(cc.Body) > 0 {
				if in, ok := cc.Body[0].(*ast.SelectStmt); ok {
					return in, cc.Body[1:], nil
				}
			}
			return nil, cc.Body, nil
		}
		return nil, nil, fmt.Errorf("pipeStream.Next has no `<-s.senderDone` arm")
	}

	register(
		// Send
		Site{Module: mod, Pkg: pkg, Func: "PipeSender.Send", Name: "sendArms", Kind: Select, Sel: "select[0]"},
		armBodies("PipeSender.Send", "sendBodies", "select[0]"),
		Site{Module: mod, Pkg: pkg, Func: "PipeSender.Send", Name: "sendSelects", Kind: Custom, Custom: countSelects},
		// TrySend
		Site{Module: mod, Pkg: pkg, Func: "PipeSender.TrySend", Name: "trySendArms1", Kind: Select, Sel: "select[0]"},
		armBodies("PipeSender.TrySend", "trySendBodies1", "select[0]"),
		Site{Module: mod, Pkg: pkg, Func: "PipeSender.TrySend", Name: "trySendArms2", Kind: Select, Sel: "select[1]"},
		armBodies("PipeSender.TrySend", "trySendBodies2", "select[1]"),
		Site{Module: mod, Pkg: pkg, Func: "PipeSender.TrySend", Name: "trySendSelects", Kind: Custom, Custom: countSelects},
		// Next
		Site{Module: mod, Pkg: pkg, Func: "pipeStream.Next", Name: "nextArms", Kind: Select, Sel: "select[0]"},
		armBodies("pipeStream.Next", "nextBodies", "select[0]"),
		Site{Module: mod, Pkg: pkg, Func: "pipeStream.Next", Name: "nextSelects", Kind: Custom, Custom: countSelects},
		Site{Module: mod, Pkg: pkg, Func: "pipeStream.Next", Name: "nextDrains", Kind: Custom,
			Custom: func(c *Ctx, s *Site) (string, error) {
				in, _, err := findDrain(c, s)
				if err != nil {
					return "", err
				}
				return fmt.Sprintf("/-- the `<-s.senderDone` arm of `pipeStream.Next` starts with a nested `select` (drain of the data channel) -/\ndef nextDrains : Bool := %v\n", in != nil), nil
			}},
		Site{Module: mod, Pkg: pkg, Func: "pipeStream.Next", Name: "nextDrainArms", Kind: Custom,
			Custom: func(c *Ctx, s *Site) (string, error) {
				in, _, err := findDrain(c, s)
				if err != nil {
					return "", err
				}
				t := "[]"
				if in != nil {
					if t, err = c.selectArms(in); err != nil {
						return "", err
					}
				}
				return fmt.Sprintf("/-- arms of the nested drain `select` of `pipeStream.Next` (`[]` when there is none) -/\ndef nextDrainArms : List Arm := %s\n", t), nil
			}},
		Site{Module: mod, Pkg: pkg, Func: "pipeStream.Next", Name: "nextDrainBodies", Kind: Custom,
			Custom: func(c *Ctx, s *Site) (string, error) {
				in, _, err := findDrain(c, s)
				if err != nil {
					return "", err
				}
				t := "[]"
				if in != nil {
					if t, err = c.selectArmBodies(in); err != nil {
						return "", err
					}
				}
				return fmt.Sprintf("def nextDrainBodies : List (Arm × List String) := %s\n", t), nil
			}},
		Site{Module: mod, Pkg: pkg, Func: "pipeStream.Next", Name: "nextEndStmts", Kind: Custom,
			Custom: func(c *Ctx, s *Site) (string, error) {
				_, rest, err := findDrain(c, s)
				if err != nil {
					return "", err
				}
				l := c.stmtList(&ast.BlockStmt{List: rest})
				q := make([]string, len(l))
				for i, x := range l {
					q[i] = leanString(x)
				}
				return fmt.Sprintf("/-- what the `<-s.senderDone` arm of `pipeStream.Next` does after the drain -/\ndef nextEndStmts : List String := [%s]\n", strings.Join(q, ", ")), nil
			}},
		// Pipe: channel capacities and wiring
		Site{Module: mod, Pkg: pkg, Func: "Pipe", Name: "chanCap", Kind: Expr, Sel: "call[make][0].arg[1]",
			Params: []Param{{"bufferSize", "Int"}}, Vars: map[string]string{"bufferSize": "bufferSize"}},
		Site{Module: mod, Pkg: pkg, Func: "Pipe", Name: "makes", Kind: Custom,
			Custom: func(c *Ctx, s *Site) (string, error) {
				fd, err := c.FindFunc(s.Pkg, s.Func)
				if err != nil {
					return "", err
				}
				var out []string
				ast.Inspect(fd.Body, func(n ast.Node) bool {
					as, ok := n.(*ast.AssignStmt)
					if !ok || len(as.Lhs) != 1 || len(as.Rhs) != 1 {
						return true
					}
					call, ok := as.Rhs[0].(*ast.CallExpr)
					if !ok {
						return true
					}
					if id, ok := call.Fun.(*ast.Ident); ok && (id.Name == "make" || id.Name == "new") {
						out = append(out, "("+leanString(c.Text(as.Lhs[0]))+", "+leanString(c.Text(call))+")")
					}
					return true
				})
				sort.Strings(out)
				return fmt.Sprintf("/-- `x := make(...)` / `new(...)` statements of `Pipe` -/\ndef makes : List (String × String) := [%s]\n", strings.Join(out, ", ")), nil
			}},
		Site{Module: mod, Pkg: pkg, Func: "Pipe", Name: "senderWiring", Kind: Custom, Text: "PipeSender", Custom: wiring},
		Site{Module: mod, Pkg: pkg, Func: "Pipe", Name: "receiverWiring", Kind: Custom, Text: "pipeStream", Custom: wiring},
		// stream.Chan
		Site{Module: mod, Pkg: pkg, Func: "chanStream.Next", Name: "chanNextArms", Kind: Select, Sel: "select[0]"},
		armBodies("chanStream.Next", "chanNextBodies", "select[0]"),
		Site{Module: mod, Pkg: pkg, Func: "chanStream.Next", Name: "chanNextSelects", Kind: Custom, Custom: countSelects},
		// Close
		Site{Module: mod, Pkg: pkg, Func: "PipeSender.Close", Name: "senderCloseStmts", Kind: StmtList},
		Site{Module: mod, Pkg: pkg, Func: "pipeStream.Close", Name: "receiverCloseStmts", Kind: StmtList},
	)
}

// selectArmBodies renders a select statement as `[(arm, [stmt, ...]), ...]`.
func (c *Ctx) selectArmBodies(n ast.Node) (string, error) {
	sel, ok := n.(*ast.SelectStmt)
	if !ok {
		return "", fmt.Errorf("selector does not denote a select statement")
	}
	arms, err := c.selectArms(sel)
	if err != nil {
		return "", err
	}
	armList := strings.Split(strings.TrimSuffix(strings.TrimPrefix(arms, "["), "]"), ", ")
	if len(armList) != len(sel.Body.List) {
		return "", fmt.Errorf("internal: arm count mismatch")
	}
	var out []string
	for i, cl := range sel.Body.List {
		cc := cl.(*ast.CommClause)
		l := c.stmtList(&ast.BlockStmt{List: cc.Body})
		q := make([]string, len(l))
		for j, x := range l {
			q[j] = leanString(x)
		}
		// the variable a received value is bound to is part of the body's meaning
		bind := ""
		if as, ok := cc.Comm.(*ast.AssignStmt); ok {
			var names []string
			for _, x := range as.Lhs {
				names = append(names, c.Text(x))
			}
			bind = strings.Join(names, ",") + ":="
		}
		if bind != "" {
			q = append([]string{leanString("bind " + bind)}, q...)
		}
		out = append(out, "("+armList[i]+", ["+strings.Join(q, ", ")+"])")
	}
	return "[" + strings.Join(out, ",\n  ") + "]", nil
}

// countSelects: number of select statements in the function (a new select is new behaviour the
// model does not have).
func countSelects(c *Ctx, s *Site) (string, error) {
	fd, err := c.FindFunc(s.Pkg, s.Func)
	if err != nil {
		return "", err
	}
	k := 0
	ast.Inspect(fd.Body, func(n ast.Node) bool {
		if _, ok := n.(*ast.SelectStmt); ok {
			k++
		}
		return true
	})
	return fmt.Sprintf("/-- number of `select` statements in `%s` -/\ndef %s : Nat := %d\n", s.Func, s.Name, k), nil
}

// wiring: the key/value pairs of the composite literal of type s.Text in s.Func, sorted by key.
func wiring(c *Ctx, s *Site) (string, error) {
	fd, err := c.FindFunc(s.Pkg, s.Func)
	if err != nil {
		return "", err
	}
	var lit *ast.CompositeLit
	ast.Inspect(fd.Body, func(n ast.Node) bool {
		cl, ok := n.(*ast.CompositeLit)
		if !ok || cl.Type == nil {
			return true
		}
		t := cl.Type
		for {
			switch x := t.(type) {
			case *ast.IndexExpr:
				t = x.X
				continue
			case *ast.IndexListExpr:
				t = x.X
				continue
			}
			break
		}
		if id, ok := t.(*ast.Ident); ok && id.Name == s.Text && lit == nil {
			lit = cl
		}
		return true
	})
	if lit == nil {
		return "", fmt.Errorf("no composite literal of type %s in %s", s.Text, s.Func)
	}
	var out []string
	for _, e := range lit.Elts {
		kv, ok := e.(*ast.KeyValueExpr)
		if !ok {
			return "", fmt.Errorf("positional composite literal of %s", s.Text)
		}
		out = append(out, "("+leanString(c.Text(kv.Key))+", "+leanString(c.Text(kv.Value))+")")
	}
	sort.Strings(out)
	return fmt.Sprintf("/-- field ↦ local of `Pipe` in the `%s` literal -/\ndef %s : List (String × String) := [%s]\n", s.Text, s.Name, strings.Join(out, ", ")), nil
}
