package main

// parallel/parallel.go -> Juniper.Gen.ParDoFacts. Consumed by Model/ParDo.lean and Model/ParWrap.lean (C13).
//
// What sites_par.go does not see (audit C13 F1/F3): the `init` and `post` clauses of the three-clause
// `for` loops of Do / DoContext (sequential path, spawn loop), the bodies of the two clamp statements
// (`parallelism = runtime.GOMAXPROCS(-1)`, `parallelism = n`: right-hand side *and* assigned variable),
// and what the wrappers Map / MapContext do (allocation, callee and its arguments, the callback's
// parameter binders, the callback's statements with the index expressions and the context handed to f,
// the return statements). Everything here is emitted as a term the Lean model computes with.

import (
	"fmt"
	"go/ast"
	"go/token"
	"strings"
)

// pwFor resolves a selector to a three-clause for statement.
func pwFor(c *Ctx, s *Site) (*ast.ForStmt, error) {
	fd, err := c.FindFunc(s.Pkg, s.Func)
	if err != nil {
		return nil, err
	}
	n, err := c.SelectPath(fd, s.Sel)
	if err != nil {
		return nil, err
	}
	fs, ok := n.(*ast.ForStmt)
	if !ok {
		return nil, fmt.Errorf("selector %q is not a for statement", s.Sel)
	}
	if fs.Init == nil || fs.Post == nil {
		return nil, fmt.Errorf("for statement %q has no init/post clause", s.Sel)
	}
	return fs, nil
}

// pwLoopVar returns the variable defined by `v := e` in the init clause and e.
func pwLoopVar(c *Ctx, fs *ast.ForStmt) (string, ast.Expr, error) {
	as, ok := fs.Init.(*ast.AssignStmt)
	if !ok || as.Tok != token.DEFINE || len(as.Lhs) != 1 || len(as.Rhs) != 1 {
		return "", nil, fmt.Errorf("init clause %q is not `v := e`", c.Pretty(fs.Init))
	}
	id, ok := as.Lhs[0].(*ast.Ident)
	if !ok {
		return "", nil, fmt.Errorf("init clause %q does not define a variable", c.Pretty(fs.Init))
	}
	return id.Name, as.Rhs[0], nil
}

// pwForInit emits the initial value of the loop variable of the for statement at sel:
// `def name : Int := e` for `for v := e; …; …`.
func pwForInit(mod, pkg, fn, sel, name string) Site {
	return Site{Module: mod, Pkg: pkg, Func: fn, Name: name, Kind: Custom, Sel: sel,
		Custom: func(c *Ctx, s *Site) (string, error) {
			fs, err := pwFor(c, s)
			if err != nil {
				return "", err
			}
			_, rhs, err := pwLoopVar(c, fs)
			if err != nil {
				return "", err
			}
			env := &trEnv{c: c, s: s, locals: map[string]string{}, consts: map[string]string{}}
			t, ty, err := env.tr(rhs)
			if err != nil {
				return "", err
			}
			if ty == "Bool" {
				return "", fmt.Errorf("init clause %q is not numeric", c.Pretty(fs.Init))
			}
			return fmt.Sprintf("/-- initial value of the loop variable: `%s` of the `for` at %s in `%s` -/\ndef %s : Int := %s\n",
				c.Pretty(fs.Init), s.Sel, s.Func, s.Name, t), nil
		}}
}

// pwForPost emits the post clause of the for statement at sel as a function of the loop variable:
// `def name (v : Int) : Int := v + 1` for `v++`; `v--`, `v += e`, `v -= e`, `v = e(v)` likewise. The
// clause must update the variable the init clause defines.
func pwForPost(mod, pkg, fn, sel, name, leanVar string) Site {
	return Site{Module: mod, Pkg: pkg, Func: fn, Name: name, Kind: Custom, Sel: sel,
		Custom: func(c *Ctx, s *Site) (string, error) {
			fs, err := pwFor(c, s)
			if err != nil {
				return "", err
			}
			v, _, err := pwLoopVar(c, fs)
			if err != nil {
				return "", err
			}
			s2 := *s
			s2.Params = []Param{{leanVar, "Int"}}
			s2.Vars = map[string]string{v: leanVar}
			env := &trEnv{c: c, s: &s2, locals: map[string]string{}, consts: map[string]string{}}
			var term string
			switch p := fs.Post.(type) {
			case *ast.IncDecStmt:
				if c.Text(p.X) != v {
					return "", fmt.Errorf("post clause %q does not update the loop variable %s", c.Pretty(p), v)
				}
				if p.Tok == token.INC {
					term = "(" + leanVar + " + (1 : Int))"
				} else {
					term = "(" + leanVar + " - (1 : Int))"
				}
			case *ast.AssignStmt:
				if len(p.Lhs) != 1 || len(p.Rhs) != 1 || c.Text(p.Lhs[0]) != v {
					return "", fmt.Errorf("post clause %q does not update the loop variable %s", c.Pretty(p), v)
				}
				t, ty, err := env.tr(p.Rhs[0])
				if err != nil {
					return "", err
				}
				if ty == "Bool" {
					return "", fmt.Errorf("post clause %q is not numeric", c.Pretty(p))
				}
				switch p.Tok {
				case token.ASSIGN:
					term = t
				case token.ADD_ASSIGN:
					term = "(" + leanVar + " + " + t + ")"
				case token.SUB_ASSIGN:
					term = "(" + leanVar + " - " + t + ")"
				default:
					return "", fmt.Errorf("unsupported post clause %q", c.Pretty(p))
				}
			default:
				return "", fmt.Errorf("unsupported post clause %q", c.Pretty(fs.Post))
			}
			return fmt.Sprintf("/-- post clause `%s` of the `for` at %s in `%s`, as a function of the loop variable -/\ndef %s (%s : Int) : Int := %s\n",
				c.Pretty(fs.Post), s.Sel, s.Func, s.Name, leanVar, term), nil
		}}
}

// pwClampAssign emits the body of a clamp statement `if … { v = e }` (sel = the if's body, which must
// be that single assignment, v one of `parallelism`, `n`) as the new value of the pair
// (parallelism, n): `def name (parallelism n gmp : Int) : Int × Int := (e, n)` resp. `(parallelism, e)`;
// `runtime.GOMAXPROCS(-1)` is `gmp`.
func pwClampAssign(mod, pkg, fn, sel, name string) Site {
	ps := []Param{{"parallelism", "Int"}, {"n", "Int"}, {"gmp", "Int"}}
	vars := map[string]string{"parallelism": "parallelism", "n": "n", "runtime.GOMAXPROCS(-1)": "gmp"}
	return Site{Module: mod, Pkg: pkg, Func: fn, Name: name, Kind: Custom, Sel: sel, Params: ps, Vars: vars,
		Custom: func(c *Ctx, s *Site) (string, error) {
			fd, err := c.FindFunc(s.Pkg, s.Func)
			if err != nil {
				return "", err
			}
			n, err := c.SelectPath(fd, s.Sel)
			if err != nil {
				return "", err
			}
			b, ok := n.(*ast.BlockStmt)
			if !ok || len(b.List) != 1 {
				return "", fmt.Errorf("selector %q is not a block of one statement", s.Sel)
			}
			as, ok := b.List[0].(*ast.AssignStmt)
			if !ok || as.Tok != token.ASSIGN || len(as.Lhs) != 1 || len(as.Rhs) != 1 {
				return "", fmt.Errorf("%q is not a plain assignment `v = e`", c.Pretty(b.List[0]))
			}
			env := &trEnv{c: c, s: s, locals: map[string]string{}, consts: map[string]string{}}
			t, ty, err := env.tr(as.Rhs[0])
			if err != nil {
				return "", err
			}
			if ty == "Bool" {
				return "", fmt.Errorf("%q assigns a Bool", c.Pretty(as))
			}
			var pair string
			switch c.Text(as.Lhs[0]) {
			case "parallelism":
				pair = "(" + t + ", n)"
			case "n":
				pair = "(parallelism, " + t + ")"
			default:
				return "", fmt.Errorf("%q assigns neither `parallelism` nor `n`", c.Pretty(as))
			}
			return fmt.Sprintf("/-- `%s` in `%s` (%s): the pair (parallelism, n) after the assignment -/\ndef %s%s : Int × Int := %s\n",
				c.Pretty(as), s.Func, s.Sel, s.Name, paramsText(s.Params), pair), nil
		}}
}

func init() {
	const pkg = "parallel"
	const mod = "ParDoFacts"

	// ------------------------------------------------------------------------------------ Do / DoContext
	for _, fp := range [][2]string{{"Do", "do"}, {"DoContext", "dc"}} {
		fn, p := fp[0], fp[1]
		register(
			pwClampAssign(mod, pkg, fn, "if[0].body", p+"ClampLowAssign"),
			pwClampAssign(mod, pkg, fn, "if[1].body", p+"ClampHighAssign"),
			pwForInit(mod, pkg, fn, "if[2].body/for[0]", p+"SeqInit"),
			pwForPost(mod, pkg, fn, "if[2].body/for[0]", p+"SeqPost", "i"),
			pwForInit(mod, pkg, fn, "for[1]", p+"SpawnInit"),
			pwForPost(mod, pkg, fn, "for[1]", p+"SpawnPost", "j"),
		)
	}
}

// ---------------------------------------------------------------------------------------------
// the wrappers Map / MapContext

// pwWrap is what the extractor finds in a wrapper body.
type pwWrap struct {
	fd      *ast.FuncDecl
	call    *ast.CallExpr  // the call that takes the callback
	lit     *ast.FuncLit   // the callback
	litArg  int            // its position among the call's arguments
	cbNames []string       // the callback's parameter names, one per parameter
	write   *ast.IndexExpr // out[...] in the callback
	read    *ast.IndexExpr // in[...] in the callback
	fcall   *ast.CallExpr  // f(...) in the callback
}

func pwParamNames(fl *ast.FieldList) ([]string, []string) {
	var names, types []string
	if fl == nil {
		return nil, nil
	}
	for _, f := range fl.List {
		ty := ""
		switch t := f.Type.(type) {
		case *ast.Ident:
			ty = t.Name
		case *ast.SelectorExpr:
			if x, ok := t.X.(*ast.Ident); ok {
				ty = x.Name + "." + t.Sel.Name
			}
		}
		if len(f.Names) == 0 {
			names = append(names, "_")
			types = append(types, ty)
		}
		for _, n := range f.Names {
			names = append(names, n.Name)
			types = append(types, ty)
		}
	}
	return names, types
}

// pwAnalyse finds the one call with a function-literal argument in the wrapper's body and, inside the
// literal, the one `out[…]`, the one `in[…]` and the one call of `f`.
func pwAnalyse(c *Ctx, s *Site) (*pwWrap, error) {
	fd, err := c.FindFunc(s.Pkg, s.Func)
	if err != nil {
		return nil, err
	}
	w := &pwWrap{fd: fd}
	n := 0
	ast.Inspect(fd.Body, func(x ast.Node) bool {
		if ce, ok := x.(*ast.CallExpr); ok {
			for i, a := range ce.Args {
				if fl, ok := a.(*ast.FuncLit); ok {
					n++
					w.call, w.lit, w.litArg = ce, fl, i
				}
			}
		}
		if _, ok := x.(*ast.FuncLit); ok {
			return false
		}
		return true
	})
	if n != 1 {
		return nil, fmt.Errorf("%s: %d calls with a function literal argument, wanted 1", s.Func, n)
	}
	w.cbNames, _ = pwParamNames(w.lit.Type.Params)
	nw, nr, nf := 0, 0, 0
	ast.Inspect(w.lit.Body, func(x ast.Node) bool {
		switch e := x.(type) {
		case *ast.IndexExpr:
			switch c.Text(e.X) {
			case "out":
				nw++
				w.write = e
			case "in":
				nr++
				w.read = e
			}
		case *ast.CallExpr:
			if c.Text(e.Fun) == "f" {
				nf++
				w.fcall = e
			}
		}
		return true
	})
	if nw != 1 || nr != 1 || nf != 1 {
		return nil, fmt.Errorf("%s: callback has %d `out[…]`, %d `in[…]`, %d calls of f; wanted one each", s.Func, nw, nr, nf)
	}
	return w, nil
}

func pwStrings(l []string) string {
	q := make([]string, len(l))
	for i, x := range l {
		q[i] = leanString(x)
	}
	return "[" + strings.Join(q, ", ") + "]"
}

// pwCtxParam returns the name of the enclosing function's parameter of type context.Context ("" if none).
func pwCtxParam(fd *ast.FuncDecl) string {
	names, types := pwParamNames(fd.Type.Params)
	for i, t := range types {
		if t == "context.Context" {
			return names[i]
		}
	}
	return ""
}

func pwCustom(mod, pkg, fn, name string, f func(c *Ctx, s *Site, w *pwWrap) (string, error)) Site {
	return Site{Module: mod, Pkg: pkg, Func: fn, Name: name, Kind: Custom,
		Custom: func(c *Ctx, s *Site) (string, error) {
			w, err := pwAnalyse(c, s)
			if err != nil {
				return "", err
			}
			return f(c, s, w)
		}}
}

// pwIdx emits an index expression of the callback as a function of the callback's own index parameter
// (its last parameter) and of the two slice lengths: `def name (i lenIn lenOut : Int) : Int := …`. An identifier other than that parameter does
// not translate (broken tie).
func pwIdx(mod, pkg, fn, name string, write bool) Site {
	return pwCustom(mod, pkg, fn, name, func(c *Ctx, s *Site, w *pwWrap) (string, error) {
		if len(w.cbNames) == 0 {
			return "", fmt.Errorf("%s: the callback has no parameter", s.Func)
		}
		ip := w.cbNames[len(w.cbNames)-1]
		ie := w.read
		if write {
			ie = w.write
		}
		s2 := *s
		s2.Params = []Param{{"i", "Int"}, {"lenIn", "Int"}, {"lenOut", "Int"}}
		s2.Vars = map[string]string{"len(in)": "lenIn", "len(out)": "lenOut"}
		if ip != "_" {
			s2.Vars[ip] = "i"
		}
		env := &trEnv{c: c, s: &s2, locals: map[string]string{}, consts: map[string]string{}}
		t, ty, err := env.tr(ie.Index)
		if err != nil {
			return "", err
		}
		if ty == "Bool" {
			return "", fmt.Errorf("index %s is not numeric", c.Pretty(ie.Index))
		}
		return fmt.Sprintf("/-- index expression of `%s` in the callback of `%s`, as a function of the callback's own index parameter `%s` (and of `len(in)`, `len(out)`) -/\ndef %s (i lenIn lenOut : Int) : Int := %s\n",
			c.Pretty(ie), s.Func, ip, s.Name, t), nil
	})
}

func init() {
	const pkg = "parallel"
	const mod = "ParDoFacts"
	str := func(fn, name, doc string, f func(c *Ctx, w *pwWrap) (string, error)) Site {
		return pwCustom(mod, pkg, fn, name, func(c *Ctx, s *Site, w *pwWrap) (string, error) {
			v, err := f(c, w)
			if err != nil {
				return "", err
			}
			return fmt.Sprintf("/-- %s (`%s`) -/\ndef %s : String := %s\n", doc, s.Func, s.Name, leanString(v)), nil
		})
	}
	strs := func(fn, name, doc string, f func(c *Ctx, w *pwWrap) ([]string, error)) Site {
		return pwCustom(mod, pkg, fn, name, func(c *Ctx, s *Site, w *pwWrap) (string, error) {
			v, err := f(c, w)
			if err != nil {
				return "", err
			}
			return fmt.Sprintf("/-- %s (`%s`) -/\ndef %s : List String := %s\n", doc, s.Func, s.Name, pwStrings(v)), nil
		})
	}
	// where a context expression comes from: the callback's own first parameter, the wrapper's own
	// context parameter (not shadowed by the callback's), anything else
	ctxSource := func(c *Ctx, w *pwWrap, e ast.Expr, insideCb bool) string {
		id, ok := e.(*ast.Ident)
		if !ok {
			return "other"
		}
		if insideCb {
			for i, n := range w.cbNames {
				if n == id.Name && n != "_" {
					if i == 0 {
						return "closureParam"
					}
					return "other"
				}
			}
		}
		if p := pwCtxParam(w.fd); p != "" && p == id.Name {
			return "callerCtx"
		}
		return "other"
	}
	for _, fp := range [][2]string{{"Map", "map"}, {"MapContext", "mc"}} {
		fn, p := fp[0], fp[1]
		ctxMode := fn == "MapContext"
		lenVars := map[string]string{"len(in)": "lenIn"}
		lenPs := []Param{{"lenIn", "Int"}}
		register(
			// out := make([]U, <len>)
			Site{Module: mod, Pkg: pkg, Func: fn, Name: p + "AllocLen", Kind: Expr, Sel: "assign[out][0]/call[make][0].arg[1]", Params: lenPs, Vars: lenVars},
			str(fn, p+"Callee", "the function the callback is handed to", func(c *Ctx, w *pwWrap) (string, error) {
				return c.Text(w.call.Fun), nil
			}),
			strs(fn, p+"CallArgs", "the arguments of that call, the callback as `<cb>`", func(c *Ctx, w *pwWrap) ([]string, error) {
				var out []string
				for i, a := range w.call.Args {
					if i == w.litArg {
						out = append(out, "<cb>")
					} else {
						out = append(out, c.Text(a))
					}
				}
				return out, nil
			}),
			strs(fn, p+"CbParams", "the callback's own parameter binders", func(c *Ctx, w *pwWrap) ([]string, error) {
				return w.cbNames, nil
			}),
			pwIdx(mod, pkg, fn, p+"WriteIdx", true),
			pwIdx(mod, pkg, fn, p+"ReadIdx", false),
			strs(fn, p+"CbShape", "the callback's statements; `#w` / `#r` stand for the index expressions of `out[…]` / `in[…]`, `#c` for the context handed to f", func(c *Ctx, w *pwWrap) ([]string, error) {
				var out []string
				for _, st := range w.lit.Body.List {
					t := c.Text(st)
					t = strings.Replace(t, c.Text(w.write), "out[#w]", 1)
					t = strings.Replace(t, c.Text(w.read), "in[#r]", 1)
					if ctxMode && len(w.fcall.Args) > 0 {
						t = strings.Replace(t, "f("+c.Text(w.fcall.Args[0])+",", "f(#c,", 1)
					}
					out = append(out, t)
				}
				return out, nil
			}),
			strs(fn, p+"Stmts", "the wrapper's statements, the callback as `<cb>`", func(c *Ctx, w *pwWrap) ([]string, error) {
				lit := c.Text(w.lit)
				var out []string
				for _, st := range c.stmtList(w.fd.Body) {
					out = append(out, strings.Replace(stripSpace(st), lit, "<cb>", 1))
				}
				return out, nil
			}),
		)
		register(
			strs(fn, p+"RetOk", "result expressions of the wrapper's final `return`", func(c *Ctx, w *pwWrap) ([]string, error) {
				l := w.fd.Body.List
				if len(l) == 0 {
					return nil, fmt.Errorf("empty body")
				}
				rs, ok := l[len(l)-1].(*ast.ReturnStmt)
				if !ok {
					return nil, fmt.Errorf("the last statement is not a return")
				}
				var out []string
				for _, r := range rs.Results {
					out = append(out, c.Text(r))
				}
				return out, nil
			}),
		)
		if ctxMode {
			register(
				strs(fn, p+"RetErr", "result expressions of the `return` inside `if err != nil { … }`", func(c *Ctx, w *pwWrap) ([]string, error) {
					n, err := c.SelectPath(w.fd, "if[0].body/return[0]")
					if err != nil {
						return nil, err
					}
					var out []string
					for _, r := range n.(*ast.ReturnStmt).Results {
						out = append(out, c.Text(r))
					}
					return out, nil
				}),
				str(fn, p+"CalleeCtx", "where the context passed to the callee comes from", func(c *Ctx, w *pwWrap) (string, error) {
					if len(w.call.Args) == 0 {
						return "other", nil
					}
					return ctxSource(c, w, w.call.Args[0], false), nil
				}),
				str(fn, p+"CtxSource", "where the context handed to f comes from: the callback's own first parameter (`closureParam`), the wrapper's context parameter (`callerCtx`), anything else (`other`)", func(c *Ctx, w *pwWrap) (string, error) {
					if len(w.fcall.Args) == 0 {
						return "other", nil
					}
					return ctxSource(c, w, w.fcall.Args[0], true), nil
				}),
			)
		}
	}
}
