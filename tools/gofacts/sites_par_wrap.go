package main

// parallel/parallel.go -> Juniper.Gen.ParDoFacts. Consumed by Model/ParDo.lean and Model/ParWrap.lean (C13).
//
// What sites_par.go does not see (audit C13 F1/F3): the `init` and `post` clauses of the three-clause
// `for` loops of Do / DoContext (sequential path, spawn loop), the bodies of the two clamp statements
// (`parallelism = runtime.GOMAXPROCS(-1)`, `parallelism = n`: right-hand side *and* assigned variable),
// and what the wrappers Map / MapContext do (allocation, callee and its arguments, the callback's
// parameter binders, the callback's statements with the index expressions and the context handed to f,
// the return statements). Everything here is emitted as a term the Lean model computes with.

import (
	"fmt"
	"go/ast"
	"go/token"
)

// pwFor resolves a selector to a three-clause for statement.
func pwFor(c *Ctx, s *Site) (*ast.ForStmt, error) {
	fd, err := c.FindFunc(s.Pkg, s.Func)
	if err != nil {
		return nil, err
	}
	n, err := c.SelectPath(fd, s.Sel)
	if err != nil {
		return nil, err
	}
	fs, ok := n.(*ast.ForStmt)
	if !ok {
		return nil, fmt.Errorf("selector %q is not a for statement", s.Sel)
	}
	if fs.Init == nil || fs.Post == nil {
		return nil, fmt.Errorf("for statement %q has no init/post clause", s.Sel)
	}
	return fs, nil
}

// pwLoopVar returns the variable defined by `v := e` in the init clause and e.
func pwLoopVar(c *Ctx, fs *ast.ForStmt) (string, ast.Expr, error) {
	as, ok := fs.Init.(*ast.AssignStmt)
	if !ok || as.Tok != token.DEFINE || len(as.Lhs) != 1 || len(as.Rhs) != 1 {
		return "", nil, fmt.Errorf("init clause %q is not `v := e`", c.Pretty(fs.Init))
	}
	id, ok := as.Lhs[0].(*ast.Ident)
	if !ok {
		return "", nil, fmt.Errorf("init clause %q does not define a variable", c.Pretty(fs.Init))
	}
	return id.Name, as.Rhs[0], nil
}

// pwForInit emits the initial value of the loop variable of the for statement at sel:
// `def name : Int := e` for `for v := e; …; …`.
func pwForInit(mod, pkg, fn, sel, name string) Site {
	return Site{Module: mod, Pkg: pkg, Func: fn, Name: name, Kind: Custom, Sel: sel,
		Custom: func(c *Ctx, s *Site) (string, error) {
			fs, err := pwFor(c, s)
			if err != nil {
				return "", err
			}
			_, rhs, err := pwLoopVar(c, fs)
			if err != nil {
				return "", err
			}
			env := &trEnv{c: c, s: s, locals: map[string]string{}, consts: map[string]string{}}
			t, ty, err := env.tr(rhs)
			if err != nil {
				return "", err
			}
			if ty == "Bool" {
				return "", fmt.Errorf("init clause %q is not numeric", c.Pretty(fs.Init))
			}
			return fmt.Sprintf("/-- initial value of the loop variable: `%s` of the `for` at %s in `%s` -/\ndef %s : Int := %s\n",
				c.Pretty(fs.Init), s.Sel, s.Func, s.Name, t), nil
		}}
}

// pwForPost emits the post clause of the for statement at sel as a function of the loop variable:
// `def name (v : Int) : Int := v + 1` for `v++`; `v--`, `v += e`, `v -= e`, `v = e(v)` likewise. The
// clause must update the variable the init clause defines.
func pwForPost(mod, pkg, fn, sel, name, leanVar string) Site {
	return Site{Module: mod, Pkg: pkg, Func: fn, Name: name, Kind: Custom, Sel: sel,
		Custom: func(c *Ctx, s *Site) (string, error) {
			fs, err := pwFor(c, s)
			if err != nil {
				return "", err
			}
			v, _, err := pwLoopVar(c, fs)
			if err != nil {
				return "", err
			}
			s2 := *s
			s2.Params = []Param{{leanVar, "Int"}}
			s2.Vars = map[string]string{v: leanVar}
			env := &trEnv{c: c, s: &s2, locals: map[string]string{}, consts: map[string]string{}}
			var term string
			switch p := fs.Post.(type) {
			case *ast.IncDecStmt:
				if c.Text(p.X) != v {
					return "", fmt.Errorf("post clause %q does not update the loop variable %s", c.Pretty(p), v)
				}
				if p.Tok == token.INC {
					term = "(" + leanVar + " + (1 : Int))"
				} else {
					term = "(" + leanVar + " - (1 : Int))"
				}
			case *ast.AssignStmt:
				if len(p.Lhs) != 1 || len(p.Rhs) != 1 || c.Text(p.Lhs[0]) != v {
					return "", fmt.Errorf("post clause %q does not update the loop variable %s", c.Pretty(p), v)
				}
				t, ty, err := env.tr(p.Rhs[0])
				if err != nil {
					return "", err
				}
				if ty == "Bool" {
					return "", fmt.Errorf("post clause %q is not numeric", c.Pretty(p))
				}
				switch p.Tok {
				case token.ASSIGN:
					term = t
				case token.ADD_ASSIGN:
					term = "(" + leanVar + " + " + t + ")"
				case token.SUB_ASSIGN:
					term = "(" + leanVar + " - " + t + ")"
				default:
					return "", fmt.Errorf("unsupported post clause %q", c.Pretty(p))
				}
			default:
				return "", fmt.Errorf("unsupported post clause %q", c.Pretty(fs.Post))
			}
			return fmt.Sprintf("/-- post clause `%s` of the `for` at %s in `%s`, as a function of the loop variable -/\ndef %s (%s : Int) : Int := %s\n",
				c.Pretty(fs.Post), s.Sel, s.Func, s.Name, leanVar, term), nil
		}}
}

// pwClampAssign emits the body of a clamp statement `if … { v = e }` (sel = the if's body, which must
// be that single assignment, v one of `parallelism`, `n`) as the new value of the pair
// (parallelism, n): `def name (parallelism n gmp : Int) : Int × Int := (e, n)` resp. `(parallelism, e)`;
// `runtime.GOMAXPROCS(-1)` is `gmp`.
func pwClampAssign(mod, pkg, fn, sel, name string) Site {
	ps := []Param{{"parallelism", "Int"}, {"n", "Int"}, {"gmp", "Int"}}
	vars := map[string]string{"parallelism": "parallelism", "n": "n", "runtime.GOMAXPROCS(-1)": "gmp"}
	return Site{Module: mod, Pkg: pkg, Func: fn, Name: name, Kind: Custom, Sel: sel, Params: ps, Vars: vars,
		Custom: func(c *Ctx, s *Site) (string, error) {
			fd, err := c.FindFunc(s.Pkg, s.Func)
			if err != nil {
				return "", err
			}
			n, err := c.SelectPath(fd, s.Sel)
			if err != nil {
				return "", err
			}
			b, ok := n.(*ast.BlockStmt)
			if !ok || len(b.List) != 1 {
				return "", fmt.Errorf("selector %q is not a block of one statement", s.Sel)
			}
			as, ok := b.List[0].(*ast.AssignStmt)
			if !ok || as.Tok != token.ASSIGN || len(as.Lhs) != 1 || len(as.Rhs) != 1 {
				return "", fmt.Errorf("%q is not a plain assignment `v = e`", c.Pretty(b.List[0]))
			}
			env := &trEnv{c: c, s: s, locals: map[string]string{}, consts: map[string]string{}}
			t, ty, err := env.tr(as.Rhs[0])
			if err != nil {
				return "", err
			}
			if ty == "Bool" {
				return "", fmt.Errorf("%q assigns a Bool", c.Pretty(as))
			}
			var pair string
			switch c.Text(as.Lhs[0]) {
			case "parallelism":
				pair = "(" + t + ", n)"
			case "n":
				pair = "(parallelism, " + t + ")"
			default:
				return "", fmt.Errorf("%q assigns neither `parallelism` nor `n`", c.Pretty(as))
			}
			return fmt.Sprintf("/-- `%s` in `%s` (%s): the pair (parallelism, n) after the assignment -/\ndef %s%s : Int × Int := %s\n",
				c.Pretty(as), s.Func, s.Sel, s.Name, paramsText(s.Params), pair), nil
		}}
}

func init() {
	const pkg = "parallel"
	const mod = "ParDoFacts"

	// ------------------------------------------------------------------------------------ Do / DoContext
	for _, fp := range [][2]string{{"Do", "do"}, {"DoContext", "dc"}} {
		fn, p := fp[0], fp[1]
		register(
			pwClampAssign(mod, pkg, fn, "if[0].body", p+"ClampLowAssign"),
			pwClampAssign(mod, pkg, fn, "if[1].body", p+"ClampHighAssign"),
			pwForInit(mod, pkg, fn, "if[2].body/for[0]", p+"SeqInit"),
			pwForPost(mod, pkg, fn, "if[2].body/for[0]", p+"SeqPost", "i"),
			pwForInit(mod, pkg, fn, "for[1]", p+"SpawnInit"),
			pwForPost(mod, pkg, fn, "for[1]", p+"SpawnPost", "j"),
		)
	}
}
