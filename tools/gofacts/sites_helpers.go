package main

// xslices, xsort, xmath, xerrors, xmath/xrand -> Juniper.Gen.Helpers. Consumed by
// Model/Helpers*.lean (C19).

import (
	"fmt"
	"go/ast"
	"go/token"
	"strings"
)

// w64Ops renders Go `int` arithmetic as 64-bit two's-complement arithmetic: every `+ - * /` and unary
// minus is wrapped in `Juniper.Facts.wrap64`, so a generated index/count expression overflows exactly
// where the Go expression does (C19 F1: `len(s)+chunkSize-1`, `len(s)+n`, `idx+n`). Comparisons and
// literals are those of `Int` (a wrapped value is compared as the signed number it denotes).
var w64Ops = &Ops{
	Neg: func(a string) string {
		if strings.HasSuffix(a, " : Int)") && !strings.Contains(a[1:], "(") {
			return "(-" + a + ")" // a negative constant
		}
		return "(wrap64 (-" + a + "))"
	},
	Bin: func(op, a, b string) (string, bool) {
		switch op {
		case "+", "-", "*":
			return "(wrap64 (" + a + " " + op + " " + b + "))", true
		case "/":
			return "(wrap64 (Int.tdiv " + a + " " + b + "))", true // MinInt / -1 wraps
		case "%":
			return "(Int.tmod " + a + " " + b + ")", true
		}
		return "", false
	},
}

// helpersFixedWidth makes every expression / whole-function site of module Helpers registered so far
// (and without rendering of its own: `Abs` is BitVec w) use w64Ops.
func helpersFixedWidth() {
	for i := range allSites {
		s := &allSites[i]
		if s.Module == "Helpers" && (s.Kind == Expr || s.Kind == Func) && s.Ops == nil {
			s.Ops = w64Ops
		}
	}
}

// sliceBound emits the low/high bound of the k-th slice expression `x[lo:hi]` (pre-order, whole
// function, x = given text) as an Int definition. An absent low bound is 0, an absent high bound is
// the Lean term `absentHi` (normally the parameter standing for len(x)).
func sliceBound(mod, pkg, fn, name, x string, k int, part string, ps []Param, vars map[string]string, absentHi string) Site {
	return Site{Module: mod, Pkg: pkg, Func: fn, Name: name, Kind: Custom, Params: ps, Vars: vars, Ops: w64Ops,
		Custom: func(c *Ctx, s *Site) (string, error) {
			fd, err := c.FindFunc(pkg, fn)
			if err != nil {
				return "", err
			}
			var hits []*ast.SliceExpr
			ast.Inspect(fd.Body, func(n ast.Node) bool {
				if se, ok := n.(*ast.SliceExpr); ok && c.Text(se.X) == x {
					hits = append(hits, se)
				}
				return true
			})
			if k >= len(hits) {
				return "", fmt.Errorf("only %d slice expression(s) of %s in %s, wanted #%d", len(hits), x, fn, k)
			}
			se := hits[k]
			if se.Slice3 {
				return "", fmt.Errorf("3-index slice unsupported")
			}
			var e ast.Expr
			if part == "lo" {
				e = se.Low
			} else {
				e = se.High
			}
			var term string
			if e == nil {
				if part == "lo" {
					term = "(0 : Int)"
				} else {
					if absentHi == "" {
						return "", fmt.Errorf("slice expression %s has no high bound", c.Pretty(se))
					}
					term = absentHi
				}
			} else {
				env := &trEnv{c: c, s: s, locals: map[string]string{}, consts: map[string]string{}}
				t, ty, err := env.tr(e)
				if err != nil {
					return "", err
				}
				if ty == "Bool" {
					return "", fmt.Errorf("slice bound is Bool")
				}
				term = t
			}
			return fmt.Sprintf("/-- %s bound of `%s` in `%s` -/\ndef %s%s : Int := %s\n", part, c.Pretty(se), fn, name, paramsText(ps), term), nil
		}}
}

// findType returns the struct type declaration `name` of a package.
func (c *Ctx) findStruct(pkg, name string) (*ast.StructType, error) {
	files, err := c.files(pkg)
	if err != nil {
		return nil, err
	}
	for _, f := range files {
		for _, d := range f.Decls {
			gd, ok := d.(*ast.GenDecl)
			if !ok || gd.Tok != token.TYPE {
				continue
			}
			for _, sp := range gd.Specs {
				ts := sp.(*ast.TypeSpec)
				if ts.Name.Name == name {
					st, ok := ts.Type.(*ast.StructType)
					if !ok {
						return nil, fmt.Errorf("type %s is not a struct", name)
					}
					return st, nil
				}
			}
		}
	}
	return nil, fmt.Errorf("type %s not found in %s", name, pkg)
}

// hasMethod reports whether the package declares method recv.name.
func (c *Ctx) hasMethod(pkg, recv, name string) bool {
	_, err := c.FindFunc(pkg, recv+"."+name)
	return err == nil
}

func init() {
	const mod = "Helpers"
	I := func(names ...string) []Param {
		var ps []Param
		for _, n := range names {
			ps = append(ps, Param{n, "Int"})
		}
		return ps
	}
	B := func(names ...string) []Param {
		var ps []Param
		for _, n := range names {
			ps = append(ps, Param{n, "Bool"})
		}
		return ps
	}
	cat := func(a ...[]Param) []Param {
		var ps []Param
		for _, x := range a {
			ps = append(ps, x...)
		}
		return ps
	}
	ex := func(pkg, fn, name, sel, typ string, ps []Param, vars map[string]string) Site {
		return Site{Module: mod, Pkg: pkg, Func: fn, Name: name, Kind: Expr, Sel: sel, Type: typ, Params: ps, Vars: vars}
	}
	present := func(pkg, fn, name, sel, text string) Site {
		return Site{Module: mod, Pkg: pkg, Func: fn, Name: name, Kind: Present, Sel: sel, Text: text}
	}
	count := func(pkg, fn, name, sel, text string) Site {
		return Site{Module: mod, Pkg: pkg, Func: fn, Name: name, Kind: Count, Sel: sel, Text: text}
	}

	// ------------------------------------------------------------------------------- xslices
	const xs = "xslices"
	lenS := map[string]string{"len(s)": "len", "cap(s)": "cap"}
	with := func(base map[string]string, kv ...string) map[string]string {
		m := map[string]string{}
		for k, v := range base {
			m[k] = v
		}
		for i := 0; i+1 < len(kv); i += 2 {
			m[kv[i]] = kv[i+1]
		}
		return m
	}
	register(
		// Chunk
		ex(xs, "Chunk", "chunkPanics", "if[0].cond", "Bool", I("chunkSize"), map[string]string{"chunkSize": "chunkSize"}),
		present(xs, "Chunk", "chunkGuardPanics", "if[0].body", `panic("xslices.Chunk: chunkSize must be positive")`),
		// chunk count: `n := 0; if len(s) > 0 { n = (len(s)-1)/chunkSize + 1 }; make([][]T, n)`
		ex(xs, "Chunk", "chunkCountEmpty", "assign[n][0].rhs", "Int", nil, nil),
		ex(xs, "Chunk", "chunkNonEmpty", "if[1].cond", "Bool", I("len"), lenS),
		ex(xs, "Chunk", "chunkCountNonEmpty", "if[1].body/assign[n][0].rhs", "Int", I("len", "chunkSize"), with(lenS, "chunkSize", "chunkSize")),
		ex(xs, "Chunk", "chunkMake", "call[make][0].arg[1]", "Int", I("n"), map[string]string{"n": "n"}),
		// chunk i: `start := i * chunkSize; end := len(s); if len(s)-start > chunkSize { end = start + chunkSize }`
		ex(xs, "Chunk", "chunkStart", "assign[start][0].rhs", "Int", I("i", "chunkSize"), map[string]string{"i": "i", "chunkSize": "chunkSize"}),
		ex(xs, "Chunk", "chunkEndLast", "assign[end][0].rhs", "Int", I("len"), lenS),
		ex(xs, "Chunk", "chunkFull", "range[0].body/if[0].cond", "Bool", I("len", "start", "chunkSize"), with(lenS, "start", "start", "chunkSize", "chunkSize")),
		ex(xs, "Chunk", "chunkEndFull", "range[0].body/if[0].body/assign[end][0].rhs", "Int", I("start", "chunkSize"), map[string]string{"start": "start", "chunkSize": "chunkSize"}),
		sliceBound(mod, xs, "Chunk", "chunkLo", "s", 0, "lo", I("start", "end_"), map[string]string{"start": "start", "end": "end_"}, ""),
		sliceBound(mod, xs, "Chunk", "chunkHi", "s", 0, "hi", I("start", "end_"), map[string]string{"start": "start", "end": "end_"}, ""),

		// RemoveUnordered
		ex(xs, "RemoveUnordered", "ruKeepStart", "assign[keepStart][0].rhs", "Int", I("len", "n"), with(lenS, "n", "n")),
		ex(xs, "RemoveUnordered", "ruRemoveEnd", "assign[removeEnd][0].rhs", "Int", I("idx", "n"), map[string]string{"idx": "idx", "n": "n"}),
		ex(xs, "RemoveUnordered", "ruBump", "if[0].cond", "Bool", I("removeEnd", "keepStart"), map[string]string{"removeEnd": "removeEnd", "keepStart": "keepStart"}),
		ex(xs, "RemoveUnordered", "ruBumpVal", "if[0].body/assign[keepStart][0].rhs", "Int", I("removeEnd"), map[string]string{"removeEnd": "removeEnd"}),
		sliceBound(mod, xs, "RemoveUnordered", "ruCopyDstLo", "s", 0, "lo", I("idx", "keepStart", "len", "n"), with(lenS, "idx", "idx", "keepStart", "keepStart", "n", "n"), ""),
		sliceBound(mod, xs, "RemoveUnordered", "ruCopyDstHi", "s", 0, "hi", I("idx", "keepStart", "len", "n"), with(lenS, "idx", "idx", "keepStart", "keepStart", "n", "n"), "len"),
		sliceBound(mod, xs, "RemoveUnordered", "ruCopySrcLo", "s", 1, "lo", I("idx", "keepStart", "len", "n"), with(lenS, "idx", "idx", "keepStart", "keepStart", "n", "n"), ""),
		sliceBound(mod, xs, "RemoveUnordered", "ruCopySrcHi", "s", 1, "hi", I("idx", "keepStart", "len", "n"), with(lenS, "idx", "idx", "keepStart", "keepStart", "n", "n"), "len"),
		sliceBound(mod, xs, "RemoveUnordered", "ruClearLo", "s", 2, "lo", I("idx", "keepStart", "len", "n"), with(lenS, "idx", "idx", "keepStart", "keepStart", "n", "n"), ""),
		sliceBound(mod, xs, "RemoveUnordered", "ruClearHi", "s", 2, "hi", I("idx", "keepStart", "len", "n"), with(lenS, "idx", "idx", "keepStart", "keepStart", "n", "n"), "len"),
		sliceBound(mod, xs, "RemoveUnordered", "ruRetLo", "s", 3, "lo", I("idx", "keepStart", "len", "n"), with(lenS, "idx", "idx", "keepStart", "keepStart", "n", "n"), ""),
		sliceBound(mod, xs, "RemoveUnordered", "ruRetHi", "s", 3, "hi", I("idx", "keepStart", "len", "n"), with(lenS, "idx", "idx", "keepStart", "keepStart", "n", "n"), "len"),
		count(xs, "RemoveUnordered", "ruCopies", "", "copy(s[idx:], s[keepStart:])"),
		count(xs, "RemoveUnordered", "ruClears", "", "Clear(s[len(s)-n:])"),

		// Reverse
		ex(xs, "Reverse", "revI0", "assign[i][0].rhs", "Int", nil, nil),
		ex(xs, "Reverse", "revCond", "for[0].cond", "Bool", I("i", "len"), with(lenS, "i", "i")),
		ex(xs, "Reverse", "revMirror", "index[s][1].idx", "Int", I("i", "len"), with(lenS, "i", "i")),
		present(xs, "Reverse", "revSwaps", "for[0].body", "s[i], s[len(s)-i-1] = s[len(s)-i-1], s[i]"),

		// Runs
		ex(xs, "Runs", "runsStart0", "assign[start][0].rhs", "Int", nil, nil),
		ex(xs, "Runs", "runsEnd0", "assign[end][0].rhs", "Int", nil, nil),
		ex(xs, "Runs", "runsNonEmpty", "if[0].cond", "Bool", I("len"), lenS),
		ex(xs, "Runs", "runsEnd1", "if[0].body/assign[end][0].rhs", "Int", nil, nil),
		ex(xs, "Runs", "runsI0", "assign[i][0].rhs", "Int", nil, nil),
		ex(xs, "Runs", "runsCond", "for[0].cond", "Bool", I("i", "len"), with(lenS, "i", "i")),
		ex(xs, "Runs", "runsSame", "for[0].body/if[0].cond", "Bool", B("sameAdj"), map[string]string{"same(s[i-1],s[i])": "sameAdj"}),
		ex(xs, "Runs", "runsEndSame", "for[0].body/if[0].body/assign[end][0].rhs", "Int", I("i"), map[string]string{"i": "i"}),
		ex(xs, "Runs", "runsStartNew", "for[0].body/if[0].else/assign[start][0].rhs", "Int", I("i"), map[string]string{"i": "i"}),
		ex(xs, "Runs", "runsEndNew", "for[0].body/if[0].else/assign[end][0].rhs", "Int", I("i"), map[string]string{"i": "i"}),
		sliceBound(mod, xs, "Runs", "runsCutLo", "s", 0, "lo", I("start", "end_", "len"), with(lenS, "start", "start", "end", "end_"), ""),
		sliceBound(mod, xs, "Runs", "runsCutHi", "s", 0, "hi", I("start", "end_", "len"), with(lenS, "start", "start", "end", "end_"), "len"),
		ex(xs, "Runs", "runsFinal", "if[2].cond", "Bool", I("end_"), map[string]string{"end": "end_"}),
		sliceBound(mod, xs, "Runs", "runsLastLo", "s", 1, "lo", I("start", "end_", "len"), with(lenS, "start", "start", "end", "end_"), ""),
		sliceBound(mod, xs, "Runs", "runsLastHi", "s", 1, "hi", I("start", "end_", "len"), with(lenS, "start", "start", "end", "end_"), "len"),

		// Shrink
		ex(xs, "Shrink", "shrinkGuard", "if[0].cond", "Bool", I("cap", "len", "n"), with(lenS, "n", "n")),
		ex(xs, "Shrink", "shrinkMake", "call[make][0].arg[1]", "Int", I("len", "n"), with(lenS, "n", "n")),
		sliceBound(mod, xs, "Shrink", "shrinkRetHi", "x2", 0, "hi", I("len", "n"), with(lenS, "n", "n"), ""),

		// Partition
		ex(xs, "Partition", "partI0", "assign[i][0].rhs", "Int", I("len"), lenS),
		ex(xs, "Partition", "partJ0", "assign[j][0].rhs", "Int", I("len"), lenS),
		ex(xs, "Partition", "partLoopI", "for[1].cond", "Bool", I("i", "j"), map[string]string{"i": "i", "j": "j"}),
		ex(xs, "Partition", "partAdvI", "for[1].body/if[0].cond", "Bool", B("fi"), map[string]string{"f(s[i])": "fi"}),
		ex(xs, "Partition", "partLoopJ", "for[2].cond", "Bool", I("i", "j"), map[string]string{"i": "i", "j": "j"}),
		ex(xs, "Partition", "partAdvJ", "for[2].body/if[0].cond", "Bool", B("fj"), map[string]string{"f(s[j])": "fj"}),
		ex(xs, "Partition", "partDone", "for[0].body/if[2].cond", "Bool", I("i", "j"), map[string]string{"i": "i", "j": "j"}),
		ex(xs, "Partition", "partFinal", "if[3].cond", "Bool", cat(I("i", "len"), B("fi")), with(lenS, "i", "i", "f(s[i])", "fi")),
		count(xs, "Partition", "partIncI", "", "i++"),
		count(xs, "Partition", "partDecJ", "", "j--"),
		count(xs, "Partition", "partSwaps", "for[0].body", "s[i], s[j] = s[j], s[i]"),
		count(xs, "Partition", "partBreaks", "", "break"),

		// UniqueInPlace
		sliceBound(mod, xs, "UniqueInPlace", "uipIntoHi", "s", 0, "hi", I("len", "flen"), with(lenS, "len(filtered)", "flen"), "len"),
		sliceBound(mod, xs, "UniqueInPlace", "uipClearLo", "s", 1, "lo", I("len", "flen"), with(lenS, "len(filtered)", "flen"), ""),
		sliceBound(mod, xs, "UniqueInPlace", "uipClearHi", "s", 1, "hi", I("len", "flen"), with(lenS, "len(filtered)", "flen"), "len"),
		ex(xs, "uniqueInto", "uniqAppends", "range[0].body/if[0].cond", "Bool", B("seen"), map[string]string{"ok": "seen"}),
		present(xs, "uniqueInto", "uniqMarks", "range[0].body/if[0].body", "m[s[i]] = struct{}{}"),
	)

	// ------------------------------------------------------------------------------- xsort
	const so = "xsort"
	register(
		Site{Module: mod, Pkg: so, Func: "LessCompare", Name: "lessCompare", Kind: Func, Sel: "funclit[0].body",
			Params: B("lab", "lba"), Vars: map[string]string{"less(a,b)": "lab", "less(b,a)": "lba"}},
		ex(so, "Search", "searchPred", "funclit[0].body/return[0].result[0]", "Bool", B("ltItemXi", "ltXiItem"),
			map[string]string{"less(item,x[i])": "ltItemXi", "less(x[i],item)": "ltXiItem"}),
		ex(so, "Search", "searchN", "call[sort.Search][0].arg[0]", "Int", I("len"), map[string]string{"len(x)": "len"}),
		ex(so, "mergeIterator.Next", "mergeEmpty", "if[0].cond", "Bool", I("hlen"), map[string]string{"iter.h.Len()": "hlen"}),
		ex(so, "mergeIterator.Next", "mergeRefill", "if[1].cond", "Bool", B("ok"), map[string]string{"ok": "ok"}),
		present(so, "mergeIterator.Next", "mergePushes", "if[1].body", "iter.h.Push(valueAndSource[T]{nextItem, item.source})"),
		ex(so, "Merge", "mergeSkipsEmpty", "range[0].body/if[0].cond", "Bool", B("ok"), map[string]string{"ok": "ok"}),
		present(so, "Merge", "mergeSkipContinues", "range[0].body/if[0].body", "continue"),
		ex(so, "MinK", "minKPop", "for[0].body/if[1].cond", "Bool", I("hlen", "k"), map[string]string{"h.Len()": "hlen", "k": "k"}),
		present(so, "MinK", "minKPops", "for[0].body/if[1].body", "h.Pop()"),
		ex(so, "MinK", "minKOutLen", "call[make][0].arg[1]", "Int", I("hlen"), map[string]string{"h.Len()": "hlen"}),
		ex(so, "MinK", "minKFillFrom", "assign[i][0].rhs", "Int", I("outLen"), map[string]string{"len(out)": "outLen"}),
		ex(so, "MinK", "minKFillCond", "for[1].cond", "Bool", I("i"), map[string]string{"i": "i"}),
		present(so, "MinK", "minKReversed", "", "h := heap.New[T](heap.Less[T](Reverse(less)), func(a T, i int) {}, nil)"),
	)

	// ------------------------------------------------------------------------------- xmath
	bvOps := &Ops{
		Lit: func(n string) string { return "(BitVec.ofNat w " + n + ")" },
		Neg: func(a string) string { return "(-" + a + ")" },
		Cmp: func(op, a, b string) (string, bool) {
			switch op {
			case "<":
				return "(BitVec.slt " + a + " " + b + ")", true
			case "<=":
				return "(BitVec.sle " + a + " " + b + ")", true
			case ">":
				return "(BitVec.slt " + b + " " + a + ")", true
			case ">=":
				return "(BitVec.sle " + b + " " + a + ")", true
			case "==":
				return "(" + a + " == " + b + ")", true
			}
			return "", false
		},
	}
	register(
		Site{Module: mod, Pkg: "xmath", Func: "Abs", Name: "abs", Kind: Func, Type: "BitVec w",
			Params: []Param{{"w", "Nat"}, {"x", "BitVec w"}}, Ops: bvOps},
		Site{Module: mod, Pkg: "xmath", Func: "Clamp", Name: "clamp", Kind: Func,
			Params: I("x", "lo", "hi"), Vars: map[string]string{"min": "lo", "max": "hi"}},
	)

	// ------------------------------------------------------------------------------- xerrors
	const xe = "xerrors"
	register(
		ex(xe, "WithStack", "wsNilGuard", "if[0].cond", "Bool", B("isNil"), map[string]string{"err==nil": "isNil"}),
		present(xe, "WithStack", "wsNilReturnsNil", "if[0].body", "return nil"),
		present(xe, "WithStack", "wsDetectedReturnsErr", "if[1].body", "return err"),
		present(xe, "withStack.Unwrap", "wsUnwrapReturnsInner", "", "return err.inner"),
		Site{Module: mod, Pkg: xe, Func: "WithStack", Name: "wsDetect", Kind: Custom,
			Custom: func(c *Ctx, s *Site) (string, error) {
				fd, err := c.FindFunc(xe, "WithStack")
				if err != nil {
					return "", err
				}
				n, err := c.SelectPath(fd, "if[1].cond")
				if err != nil {
					return "", err
				}
				call, ok := n.(*ast.CallExpr)
				if !ok || len(call.Args) != 2 || c.Text(call.Args[0]) != "err" {
					return "", fmt.Errorf("already-wrapped detection is not a call f(err, target): %s", c.Pretty(n))
				}
				kind := ""
				switch c.Text(call.Fun) {
				case "errors.Is":
					// target must be a withStack composite literal
					cl, ok := call.Args[1].(*ast.CompositeLit)
					if !ok || c.Text(cl.Type) != "withStack" {
						return "", fmt.Errorf("errors.Is target is not a withStack literal: %s", c.Pretty(call.Args[1]))
					}
					kind = "is"
				case "errors.As":
					u, ok := call.Args[1].(*ast.UnaryExpr)
					if !ok || u.Op != token.AND {
						return "", fmt.Errorf("errors.As target is not &x: %s", c.Pretty(call.Args[1]))
					}
					id, ok := u.X.(*ast.Ident)
					if !ok {
						return "", fmt.Errorf("errors.As target is not &ident")
					}
					// ident must be declared `var ident withStack` in the function
					found := false
					ast.Inspect(fd.Body, func(x ast.Node) bool {
						if ds, ok := x.(*ast.DeclStmt); ok {
							if gd, ok := ds.Decl.(*ast.GenDecl); ok && gd.Tok == token.VAR {
								for _, sp := range gd.Specs {
									vs := sp.(*ast.ValueSpec)
									for _, nm := range vs.Names {
										if nm.Name == id.Name && vs.Type != nil && c.Text(vs.Type) == "withStack" && len(vs.Values) == 0 {
											found = true
										}
									}
								}
							}
						}
						return true
					})
					if !found {
						return "", fmt.Errorf("errors.As target %s is not declared `var %s withStack`", id.Name, id.Name)
					}
					kind = "as"
				default:
					return "", fmt.Errorf("unknown already-wrapped detection %s", c.Pretty(call))
				}
				// is the struct type comparable (no slice / map / func field)?
				st, err := c.findStruct(xe, "withStack")
				if err != nil {
					return "", err
				}
				comparable := true
				var fields []string
				for _, f := range st.Fields.List {
					switch f.Type.(type) {
					case *ast.ArrayType:
						if f.Type.(*ast.ArrayType).Len == nil {
							comparable = false
						}
					case *ast.MapType, *ast.FuncType:
						comparable = false
					}
					for _, nm := range f.Names {
						fields = append(fields, nm.Name+" "+c.Text(f.Type))
					}
				}
				hasIs := c.hasMethod(xe, "withStack", "Is")
				hasAs := c.hasMethod(xe, "withStack", "As")
				// the final return wraps err
				wraps := false
				ast.Inspect(fd.Body, func(x ast.Node) bool {
					if r, ok := x.(*ast.ReturnStmt); ok && len(r.Results) == 1 {
						if cl, ok := r.Results[0].(*ast.CompositeLit); ok && c.Text(cl.Type) == "withStack" {
							for _, el := range cl.Elts {
								if kv, ok := el.(*ast.KeyValueExpr); ok && c.Text(kv.Key) == "inner" && c.Text(kv.Value) == "err" {
									wraps = true
								}
							}
						}
					}
					return true
				})
				var b strings.Builder
				fmt.Fprintf(&b, "/-- how `WithStack` detects an already attached stack: `%s` -/\ndef wsDetect : String := %q\n\n", c.Pretty(call), kind)
				fmt.Fprintf(&b, "/-- `withStack` (fields: %s) is a comparable type -/\ndef wsComparable : Bool := %v\n\n", strings.Join(fields, "; "), comparable)
				fmt.Fprintf(&b, "/-- `withStack` declares an `Is` method -/\ndef wsHasIsMethod : Bool := %v\n\n", hasIs)
				fmt.Fprintf(&b, "/-- `withStack` declares an `As` method -/\ndef wsHasAsMethod : Bool := %v\n\n", hasAs)
				fmt.Fprintf(&b, "/-- `WithStack` ends with `return withStack{inner: err, ...}` -/\ndef wsWrapsErr : Bool := %v\n", wraps)
				return b.String(), nil
			}},
	)

	// ------------------------------------------------------------------------------- xrand
	const xr = "xmath/xrand"
	sv := map[string]string{"s.i": "i", "s.k": "k", "s.first": "first", "j": "j",
		"math.IsInf(skip,0)||math.IsNaN(skip)||skip>=float64(math.MaxInt-s.i)": "skipBad", "math.MaxInt": "maxInt", "int(skip)": "skip", "s.r.Intn(s.k)": "rnd"}
	sp := cat(I("i", "k"), B("first"))
	register(
		ex(xr, "sampler.Next", "sampFill", "if[0].cond", "Bool", sp, sv),
		ex(xr, "sampler.Next", "sampFillJ", "if[0].body/assign[j][0].rhs", "Int", sp, sv),
		ex(xr, "sampler.Next", "sampFillNext", "if[0].body/return[0].result[0]", "Int", I("j"), sv),
		ex(xr, "sampler.Next", "sampFillReplace", "if[0].body/return[0].result[1]", "Int", I("j"), sv),
		present(xr, "sampler.Next", "sampFillIncs", "if[0].body", "s.i++"),
		ex(xr, "sampler.Next", "sampFirst", "if[1].cond", "Bool", sp, sv),
		present(xr, "sampler.Next", "sampFirstDecs", "if[1].body", "s.i--"),
		present(xr, "sampler.Next", "sampFirstClears", "if[1].body", "s.first = false"),
		ex(xr, "sampler.Next", "sampBad", "if[2].cond", "Bool", B("skipBad"), sv),
		ex(xr, "sampler.Next", "sampBadNext", "if[2].body/return[0].result[0]", "Int", I("maxInt"), sv),
		ex(xr, "sampler.Next", "sampBadReplace", "if[2].body/return[0].result[1]", "Int", I("maxInt"), sv),
		ex(xr, "sampler.Next", "sampAdvance", "assign[s.i][0].rhs", "Int", I("skip"), sv),
		present(xr, "sampler.Next", "sampAdvanceAdds", "", "s.i += int(skip) + 1"),
		ex(xr, "sampler.Next", "sampNext", "return[2].result[0]", "Int", I("i", "rnd"), sv),
		ex(xr, "sampler.Next", "sampReplace", "return[2].result[1]", "Int", I("i", "rnd"), sv),
		// rSample / rSampleSlice / rSampleIterator / rSampleStream: stop and truncation guards
		ex(xr, "rSample", "rsStop", "for[0].body/if[0].cond", "Bool", I("next", "n"), map[string]string{"next": "next", "n": "n"}),
		present(xr, "rSample", "rsStores", "for[0].body", "out[replace] = next"),
		ex(xr, "rSample", "rsTrunc", "if[1].cond", "Bool", I("n", "k"), map[string]string{"n": "n", "k": "k"}),
		sliceBound(mod, xr, "rSample", "rsTruncHi", "out", 0, "hi", I("n", "k"), map[string]string{"n": "n", "k": "k"}, ""),
		ex(xr, "rSample", "rsMake", "call[make][0].arg[1]", "Int", I("n", "k"), map[string]string{"n": "n", "k": "k"}),
		ex(xr, "rSampleSlice", "rssStop", "for[0].body/if[0].cond", "Bool", I("next", "n"), map[string]string{"next": "next", "len(a)": "n"}),
		present(xr, "rSampleSlice", "rssStores", "for[0].body", "out[replace] = a[next]"),
		ex(xr, "rSampleSlice", "rssTrunc", "if[1].cond", "Bool", I("n", "k"), map[string]string{"len(a)": "n", "k": "k"}),
		sliceBound(mod, xr, "rSampleSlice", "rssTruncHi", "out", 0, "hi", I("n", "k"), map[string]string{"len(a)": "n", "k": "k"}, ""),
		ex(xr, "rSampleIterator", "rsiTake", "for[0].body/for[0].body/if[1].cond", "Bool", I("i", "next"), map[string]string{"next": "next", "i": "i"}),
		present(xr, "rSampleIterator", "rsiStores", "for[0].body/for[0].body/if[1].body", "out[replace] = item"),
		count(xr, "rSampleIterator", "rsiIncs", "for[0].body/for[0].body", "i++"),
		ex(xr, "rSampleIterator", "rsiTrunc", "if[2].cond", "Bool", I("i", "k"), map[string]string{"i": "i", "k": "k"}),
		sliceBound(mod, xr, "rSampleIterator", "rsiTruncHi", "out", 0, "hi", I("i", "k"), map[string]string{"i": "i", "k": "k"}, ""),
		ex(xr, "rSampleStream", "rstTake", "for[0].body/for[0].body/if[2].cond", "Bool", I("i", "next"), map[string]string{"next": "next", "i": "i"}),
		present(xr, "rSampleStream", "rstStores", "for[0].body/for[0].body/if[2].body", "out[replace] = item"),
		count(xr, "rSampleStream", "rstIncs", "for[0].body/for[0].body", "i++"),
		ex(xr, "rSampleStream", "rstTrunc", "if[3].cond", "Bool", I("i", "k"), map[string]string{"i": "i", "k": "k"}),
		sliceBound(mod, xr, "rSampleStream", "rstTruncHi", "out", 0, "hi", I("i", "k"), map[string]string{"i": "i", "k": "k"}, ""),
		present(xr, "rShuffle", "shuffleSwaps", "funclit[0].body", "a[i], a[j] = a[j], a[i]"),
		ex(xr, "rShuffle", "shuffleN", "call[r.Shuffle][0].arg[0]", "Int", I("len"), map[string]string{"len(a)": "len"}),
	)
}

// ---------------------------------------------------------------------------------------------
// Thin wrappers (extension of C19 to every exported helper).
//
// wrapperSite translates a helper whose body is one `return <expr>` or one call statement
// (optionally preceded by `var zero T` declarations) into a Lean definition in which every callee
// (`slices.ContainsFunc`, `sort.Slice`, `min`, another helper of the package, ...) is a *parameter*
// of the definition: the model instantiates those parameters with the documented contract of the
// standard-library function (Model/HelpersStdlib.lean, trusted base), everything else - which
// function is called, with which arguments in which order, the polarity of a predicate adapter,
// `idx+n`, `slices.Clone` before an in-place function - is regenerated from the source. `sig` is
// the Lean binder list and result type; `vars` maps Go expression text to Lean terms; `callees`
// maps callee text to the Lean parameter that stands for it; function literals become `fun`s
// (with `litBinder` as an extra first binder when the literal reads a captured slice whose
// contents change during the call, e.g. the index-less adapter handed to sort.Slice).
func wrapperSite(mod, pkg, fn, name, sig string, vars, callees map[string]string, litBinder string) Site {
	return Site{Module: mod, Pkg: pkg, Func: fn, Name: name, Kind: Custom,
		Custom: func(c *Ctx, s *Site) (string, error) {
			fd, err := c.FindFunc(pkg, fn)
			if err != nil {
				return "", err
			}
			vs := map[string]string{}
			for k, v := range vars {
				vs[k] = v
			}
			var tr func(e ast.Expr, vs map[string]string) (string, error)
			tr = func(e ast.Expr, vs map[string]string) (string, error) {
				txt := c.Text(e)
				if v, ok := vs[txt]; ok {
					return v, nil
				}
				switch n := e.(type) {
				case *ast.ParenExpr:
					return tr(n.X, vs)
				case *ast.BasicLit:
					if n.Kind != token.INT {
						return "", fmt.Errorf("unsupported literal %s", txt)
					}
					return "(" + n.Value + " : Int)", nil
				case *ast.Ident:
					return "", fmt.Errorf("unmapped identifier %q", n.Name)
				case *ast.UnaryExpr:
					a, err := tr(n.X, vs)
					if err != nil {
						return "", err
					}
					switch n.Op {
					case token.NOT:
						return "(!" + a + ")", nil
					case token.SUB:
						return "(-" + a + ")", nil
					}
					return "", fmt.Errorf("unsupported unary %s", n.Op)
				case *ast.BinaryExpr:
					a, err := tr(n.X, vs)
					if err != nil {
						return "", err
					}
					b, err := tr(n.Y, vs)
					if err != nil {
						return "", err
					}
					switch n.Op {
					case token.ADD, token.SUB, token.MUL:
						return "(wrap64 (" + a + " " + n.Op.String() + " " + b + "))", nil // Go int: 64-bit wrap-around
					case token.EQL:
						return "(" + a + " == " + b + ")", nil
					case token.NEQ:
						return "(" + a + " != " + b + ")", nil
					case token.LAND:
						return "(" + a + " && " + b + ")", nil
					case token.LOR:
						return "(" + a + " || " + b + ")", nil
					case token.LSS:
						return "(decide (" + a + " < " + b + "))", nil
					case token.GTR:
						return "(decide (" + a + " > " + b + "))", nil
					}
					return "", fmt.Errorf("unsupported operator %s", n.Op)
				case *ast.CallExpr:
					fun := c.Text(n.Fun)
					lean, ok := callees[fun]
					if !ok {
						lean, ok = vs[fun]
					}
					if !ok {
						return "", fmt.Errorf("unexpected callee %s in %s", fun, txt)
					}
					out := "(" + lean
					for _, a := range n.Args {
						t, err := tr(a, vs)
						if err != nil {
							return "", err
						}
						out += " " + t
					}
					return out + ")", nil
				case *ast.FuncLit:
					inner := map[string]string{}
					for k, v := range vs {
						inner[k] = v
					}
					binders := ""
					if litBinder != "" {
						binders = " " + litBinder
					}
					for _, f := range n.Type.Params.List {
						for _, nm := range f.Names {
							inner[nm.Name] = nm.Name
							binders += " " + nm.Name
						}
					}
					if len(n.Body.List) != 1 {
						return "", fmt.Errorf("function literal with %d statements", len(n.Body.List))
					}
					r, ok := n.Body.List[0].(*ast.ReturnStmt)
					if !ok || len(r.Results) != 1 {
						return "", fmt.Errorf("function literal is not `return e`")
					}
					b, err := tr(r.Results[0], inner)
					if err != nil {
						return "", err
					}
					return "(fun" + binders + " => " + b + ")", nil
				}
				return "", fmt.Errorf("unsupported expression %s", txt)
			}
			stmts := fd.Body.List
			for len(stmts) > 1 {
				ds, ok := stmts[0].(*ast.DeclStmt)
				if !ok {
					break
				}
				gd, ok := ds.Decl.(*ast.GenDecl)
				if !ok || gd.Tok != token.VAR {
					break
				}
				for _, sp := range gd.Specs {
					v := sp.(*ast.ValueSpec)
					if len(v.Values) != 0 {
						return "", fmt.Errorf("initialised var declaration in %s", fn)
					}
					for _, nm := range v.Names {
						vs[nm.Name] = "zero" // `var x T` is the zero value
					}
				}
				stmts = stmts[1:]
			}
			if len(stmts) != 1 {
				return "", fmt.Errorf("%s is not a one-statement wrapper (%d statements)", fn, len(stmts))
			}
			var e ast.Expr
			switch x := stmts[0].(type) {
			case *ast.ReturnStmt:
				if len(x.Results) != 1 {
					return "", fmt.Errorf("%s returns %d values", fn, len(x.Results))
				}
				e = x.Results[0]
			case *ast.ExprStmt:
				e = x.X
			default:
				return "", fmt.Errorf("%s: unsupported statement %s", fn, c.Pretty(stmts[0]))
			}
			t, err := tr(e, vs)
			if err != nil {
				return "", err
			}
			return fmt.Sprintf("/-- whole function `%s`: `%s` -/\ndef %s %s :=\n  %s\n", fn, c.Pretty(stmts[0]), name, sig, t), nil
		}}
}

func init() {
	const mod = "Helpers"
	I := func(names ...string) []Param {
		var ps []Param
		for _, n := range names {
			ps = append(ps, Param{n, "Int"})
		}
		return ps
	}
	B := func(names ...string) []Param {
		var ps []Param
		for _, n := range names {
			ps = append(ps, Param{n, "Bool"})
		}
		return ps
	}
	ex := func(pkg, fn, name, sel, typ string, ps []Param, vars map[string]string) Site {
		return Site{Module: mod, Pkg: pkg, Func: fn, Name: name, Kind: Expr, Sel: sel, Type: typ, Params: ps, Vars: vars}
	}
	present := func(pkg, fn, name, sel, text string) Site {
		return Site{Module: mod, Pkg: pkg, Func: fn, Name: name, Kind: Present, Sel: sel, Text: text}
	}
	count := func(pkg, fn, name, sel, text string) Site {
		return Site{Module: mod, Pkg: pkg, Func: fn, Name: name, Kind: Count, Sel: sel, Text: text}
	}
	stmts := func(pkg, fn, name string) Site {
		return Site{Module: mod, Pkg: pkg, Func: fn, Name: name, Kind: StmtList}
	}
	body := func(pkg, fn, name, sel string) Site {
		return Site{Module: mod, Pkg: pkg, Func: fn, Name: name, Kind: StmtList, Sel: sel}
	}
	fn := func(pkg, f, name, sel, typ string, ps []Param, vars map[string]string) Site {
		return Site{Module: mod, Pkg: pkg, Func: f, Name: name, Kind: Func, Sel: sel, Type: typ, Params: ps, Vars: vars}
	}
	id := func(names ...string) map[string]string {
		m := map[string]string{}
		for _, n := range names {
			m[n] = n
		}
		return m
	}
	w := func(pkg, f, name, sig string, vars, callees map[string]string) Site {
		return wrapperSite(mod, pkg, f, name, sig, vars, callees, "")
	}

	// ------------------------------------------------------------------ xslices: own loops
	const xs = "xslices"
	register(
		// All
		ex(xs, "All", "allStops", "range[0].body/if[0].cond", "Bool", B("fi"), map[string]string{"f(s[i])": "fi"}),
		ex(xs, "All", "allStopVal", "range[0].body/if[0].body/return[0].result[0]", "Bool", nil, nil),
		ex(xs, "All", "allEndVal", "return[1].result[0]", "Bool", nil, nil),
		// CountFunc
		ex(xs, "CountFunc", "cfInit", "assign[n][0].rhs", "Int", nil, nil),
		ex(xs, "CountFunc", "cfTakes", "range[0].body/if[0].cond", "Bool", B("fs"), map[string]string{"f(s)": "fs"}),
		count(xs, "CountFunc", "cfIncs", "range[0].body/if[0].body", "n++"),
		ex(xs, "CountFunc", "cfRet", "return[0].result[0]", "Int", I("n"), id("n")),
		// Fill
		body(xs, "Fill", "fillBody", "range[0].body"),
		// Group
		body(xs, "Group", "groupBody", "range[0].body"),
		// Join
		ex(xs, "Join", "joinN0", "assign[n][0].rhs", "Int", nil, nil),
		body(xs, "Join", "joinSumBody", "range[0].body"),
		ex(xs, "Join", "joinMakeLen", "call[make][0].arg[1]", "Int", I("n"), id("n")),
		ex(xs, "Join", "joinMakeCap", "call[make][0].arg[2]", "Int", I("n"), id("n")),
		body(xs, "Join", "joinAppendBody", "range[1].body"),
		// LastIndex / LastIndexFunc
		ex(xs, "LastIndex", "liStart", "assign[i][0].rhs", "Int", I("len"), map[string]string{"len(s)": "len"}),
		ex(xs, "LastIndex", "liCond", "for[0].cond", "Bool", I("i"), id("i")),
		ex(xs, "LastIndex", "liHit", "for[0].body/if[0].cond", "Bool", B("eq"), map[string]string{"s[i]==x": "eq"}),
		ex(xs, "LastIndex", "liRet", "for[0].body/if[0].body/return[0].result[0]", "Int", I("i"), id("i")),
		ex(xs, "LastIndex", "liNone", "return[1].result[0]", "Int", nil, nil),
		count(xs, "LastIndex", "liDecs", "for[0].post", "i--"),
		ex(xs, "LastIndexFunc", "lifStart", "assign[i][0].rhs", "Int", I("len"), map[string]string{"len(s)": "len"}),
		ex(xs, "LastIndexFunc", "lifCond", "for[0].cond", "Bool", I("i"), id("i")),
		ex(xs, "LastIndexFunc", "lifHit", "for[0].body/if[0].cond", "Bool", B("fi"), map[string]string{"f(s[i])": "fi"}),
		ex(xs, "LastIndexFunc", "lifRet", "for[0].body/if[0].body/return[0].result[0]", "Int", I("i"), id("i")),
		ex(xs, "LastIndexFunc", "lifNone", "return[1].result[0]", "Int", nil, nil),
		count(xs, "LastIndexFunc", "lifDecs", "for[0].post", "i--"),
		// Map
		ex(xs, "Map", "mapMake", "call[make][0].arg[1]", "Int", I("len"), map[string]string{"len(s)": "len"}),
		body(xs, "Map", "mapBody", "range[0].body"),
		// Reduce
		present(xs, "Reduce", "reduceStartsAtInitial", "", "out := initial"),
		body(xs, "Reduce", "reduceBody", "range[0].body"),
		// Repeat
		ex(xs, "Repeat", "repeatMake", "call[make][0].arg[1]", "Int", I("n"), id("n")),
		body(xs, "Repeat", "repeatBody", "range[0].body"),
	)
	// ------------------------------------------------------------------ xslices: wrappers
	register(
		w(xs, "Clear", "clearW", "{S T R : Type} (fill : S → T → R) (zero : T) (s : S) : R", id("s"), map[string]string{"Fill": "fill"}),
		w(xs, "Count", "countW", "{S T R : Type} [BEq T] (countFunc : S → (T → Bool) → R) (s : S) (x : T) : R", id("s", "x"), map[string]string{"CountFunc": "countFunc"}),
		w(xs, "Any", "anyW", "{S F R : Type} (slicesContainsFunc : S → F → R) (s : S) (f : F) : R", id("s", "f"), map[string]string{"slices.ContainsFunc": "slicesContainsFunc"}),
		w(xs, "Clone", "cloneW", "{S R : Type} (slicesClone : S → R) (s : S) : R", id("s"), map[string]string{"slices.Clone": "slicesClone"}),
		w(xs, "Compact", "compactW", "{S S' R : Type} (slicesCompact : S' → R) (slicesClone : S → S') (s : S) : R", id("s"),
			map[string]string{"slices.Compact": "slicesCompact", "slices.Clone": "slicesClone"}),
		w(xs, "CompactInPlace", "compactInPlaceW", "{S R : Type} (slicesCompact : S → R) (s : S) : R", id("s"), map[string]string{"slices.Compact": "slicesCompact"}),
		w(xs, "CompactFunc", "compactFuncW", "{S S' E R : Type} (slicesCompactFunc : S' → E → R) (slicesClone : S → S') (s : S) (eq : E) : R", id("s", "eq"),
			map[string]string{"slices.CompactFunc": "slicesCompactFunc", "slices.Clone": "slicesClone"}),
		w(xs, "CompactInPlaceFunc", "compactInPlaceFuncW", "{S E R : Type} (slicesCompactFunc : S → E → R) (s : S) (eq : E) : R", id("s", "eq"),
			map[string]string{"slices.CompactFunc": "slicesCompactFunc"}),
		w(xs, "Equal", "equalW", "{S R : Type} (slicesEqual : S → S → R) (a b : S) : R", id("a", "b"), map[string]string{"slices.Equal": "slicesEqual"}),
		w(xs, "EqualFunc", "equalFuncW", "{S E R : Type} (slicesEqualFunc : S → S → E → R) (a b : S) (eq : E) : R", id("a", "b", "eq"),
			map[string]string{"slices.EqualFunc": "slicesEqualFunc"}),
		w(xs, "Filter", "filterW", "{S S' T R : Type} (slicesDeleteFunc : S' → (T → Bool) → R) (slicesClone : S → S') (s : S) (keep : T → Bool) : R", id("s", "keep"),
			map[string]string{"slices.DeleteFunc": "slicesDeleteFunc", "slices.Clone": "slicesClone"}),
		w(xs, "FilterInPlace", "filterInPlaceW", "{S T R : Type} (slicesDeleteFunc : S → (T → Bool) → R) (s : S) (keep : T → Bool) : R", id("s", "keep"),
			map[string]string{"slices.DeleteFunc": "slicesDeleteFunc"}),
		w(xs, "Grow", "growW", "{S R : Type} (slicesGrow : S → Int → R) (s : S) (n : Int) : R", id("s", "n"), map[string]string{"slices.Grow": "slicesGrow"}),
		w(xs, "Index", "indexW", "{S T R : Type} (slicesIndex : S → T → R) (s : S) (x : T) : R", id("s", "x"), map[string]string{"slices.Index": "slicesIndex"}),
		w(xs, "IndexFunc", "indexFuncW", "{S F R : Type} (slicesIndexFunc : S → F → R) (s : S) (f : F) : R", id("s", "f"), map[string]string{"slices.IndexFunc": "slicesIndexFunc"}),
		w(xs, "Insert", "insertW", "{S V R : Type} (slicesInsert : S → Int → V → R) (s : S) (idx : Int) (values : V) : R", map[string]string{"s": "s", "idx": "idx", "values...": "values", "values": "values"},
			map[string]string{"slices.Insert": "slicesInsert"}),
		w(xs, "Remove", "removeW", "{S R : Type} (slicesDelete : S → Int → Int → R) (s : S) (idx n : Int) : R", id("s", "idx", "n"), map[string]string{"slices.Delete": "slicesDelete"}),
	)
	// ------------------------------------------------------------------ xsort
	const so = "xsort"
	lv := map[string]string{"less(a,b)": "lab", "less(b,a)": "lba"}
	register(
		fn(so, "Greater", "greater", "", "Bool", B("lab", "lba"), lv),
		fn(so, "LessOrEqual", "lessOrEqual", "", "Bool", B("lab", "lba"), lv),
		fn(so, "GreaterOrEqual", "greaterOrEqual", "", "Bool", B("lab", "lba"), lv),
		fn(so, "Equal", "sortEqual", "", "Bool", B("lab", "lba"), lv),
		fn(so, "Reverse", "sortReverse", "funclit[0].body", "Bool", B("lab", "lba"), lv),
		w(so, "OrderedLess", "orderedLessW", "{T R : Type} (cmpLess : T → T → R) (a b : T) : R", id("a", "b"), map[string]string{"cmp.Less": "cmpLess"}),
		wrapperSite(mod, so, "Slice", "sortSliceW", "{S T R : Type} (sortSlice : S → (S → Int → Int → Bool) → R) (elemAt : S → Int → T) (x : S) (less : T → T → Bool) : R",
			map[string]string{"x": "x", "less": "less", "x[i]": "(elemAt cur i)", "x[j]": "(elemAt cur j)"}, map[string]string{"sort.Slice": "sortSlice"}, "cur"),
		wrapperSite(mod, so, "SliceStable", "sortSliceStableW", "{S T R : Type} (sortSliceStable : S → (S → Int → Int → Bool) → R) (elemAt : S → Int → T) (x : S) (less : T → T → Bool) : R",
			map[string]string{"x": "x", "less": "less", "x[i]": "(elemAt cur i)", "x[j]": "(elemAt cur j)"}, map[string]string{"sort.SliceStable": "sortSliceStable"}, "cur"),
		wrapperSite(mod, so, "SliceIsSorted", "sortSliceIsSortedW", "{S T R : Type} (sortSliceIsSorted : S → (S → Int → Int → Bool) → R) (elemAt : S → Int → T) (x : S) (less : T → T → Bool) : R",
			map[string]string{"x": "x", "less": "less", "x[i]": "(elemAt cur i)", "x[j]": "(elemAt cur j)"}, map[string]string{"sort.SliceIsSorted": "sortSliceIsSorted"}, "cur"),
	)
	// MergeSlices: `out = xslices.Grow(out[:0], n)` decides whether the caller's buffer is re-used
	register(
		sliceBound(mod, so, "MergeSlices", "msGrowHi", "out", 0, "hi", nil, nil, ""),
		ex(so, "MergeSlices", "msGrowN", "call[xslices.Grow][0].arg[1]", "Int", I("n"), id("n")),
		ex(so, "MergeSlices", "msN0", "assign[n][0].rhs", "Int", nil, nil),
		body(so, "MergeSlices", "msSumBody", "range[0].body"),
	)
	// ------------------------------------------------------------------ xmaps: guards and flags of the loops
	const xm = "xmaps"
	register(
		ex(xm, "ReverseSingle", "rsOk0", "assign[allOk][0].rhs", "Bool", nil, nil),
		ex(xm, "ReverseSingle", "rsDup", "range[0].body/if[0].cond", "Bool", B("ok"), id("ok")),
		ex(xm, "ReverseSingle", "rsDupVal", "range[0].body/if[0].body/assign[allOk][0].rhs", "Bool", nil, nil),
		body(xm, "ReverseSingle", "rsBody", "range[0].body"),
		body(xm, "Reverse", "mapRevBody", "range[0].body"),
		body(xm, "ToIndex", "toIndexBody", "range[0].body"),
		ex(xm, "FromKeysAndValues", "fkvPanics", "if[0].cond", "Bool", I("klen", "vlen"), map[string]string{"len(keys)": "klen", "len(values)": "vlen"}),
		ex(xm, "FromKeysAndValues", "fkvOk0", "assign[allOk][0].rhs", "Bool", nil, nil),
		ex(xm, "FromKeysAndValues", "fkvDup", "range[0].body/if[0].cond", "Bool", B("ok"), id("ok")),
		ex(xm, "FromKeysAndValues", "fkvDupVal", "range[0].body/if[0].body/assign[allOk][0].rhs", "Bool", nil, nil),
		body(xm, "FromKeysAndValues", "fkvBody", "range[0].body"),
		body(xm, "Union", "unionBody", "range[1].body"),
		ex(xm, "Intersection", "interEmpty", "if[0].cond", "Bool", I("n"), map[string]string{"len(sets)": "n"}),
		ex(xm, "Intersection", "interJ0", "assign[j][0].rhs", "Int", nil, nil),
		ex(xm, "Intersection", "interLoop", "range[0].body/for[0].cond", "Bool", I("j", "n"), map[string]string{"j": "j", "len(sets)": "n"}),
		count(xm, "Intersection", "interIncs", "range[0].body/for[0].post", "j++"),
		ex(xm, "Intersection", "interInclude0", "range[0].body/assign[include][0].rhs", "Bool", nil, nil),
		ex(xm, "Intersection", "interMiss", "range[0].body/for[0].body/if[0].cond", "Bool", B("ok"), id("ok")),
		ex(xm, "Intersection", "interMissVal", "range[0].body/for[0].body/if[0].body/assign[include][0].rhs", "Bool", nil, nil),
		present(xm, "Intersection", "interMissBreaks", "range[0].body/for[0].body/if[0].body", "break"),
		ex(xm, "Intersection", "interStores", "range[0].body/if[1].cond", "Bool", B("incl"), map[string]string{"include": "incl"}),
		present(xm, "Intersection", "interSortsBySize", "", "xsort.Slice(sets, func(a, b S) bool { return len(a) < len(b) })"),
		ex(xm, "Intersects", "intsEmpty", "if[0].cond", "Bool", I("n"), map[string]string{"len(sets)": "n"}),
		ex(xm, "Intersects", "intsEmptyRet", "if[0].body/return[0].result[0]", "Bool", nil, nil),
		ex(xm, "Intersects", "intsJ0", "assign[j][0].rhs", "Int", nil, nil),
		ex(xm, "Intersects", "intsLoop", "range[0].body/for[0].cond", "Bool", I("j", "n"), map[string]string{"j": "j", "len(sets)": "n"}),
		count(xm, "Intersects", "intsIncs", "range[0].body/for[0].post", "j++"),
		ex(xm, "Intersects", "intsInclude0", "range[0].body/assign[include][0].rhs", "Bool", nil, nil),
		ex(xm, "Intersects", "intsMiss", "range[0].body/for[0].body/if[0].cond", "Bool", B("ok"), id("ok")),
		ex(xm, "Intersects", "intsMissVal", "range[0].body/for[0].body/if[0].body/assign[include][0].rhs", "Bool", nil, nil),
		present(xm, "Intersects", "intsMissBreaks", "range[0].body/for[0].body/if[0].body", "break"),
		ex(xm, "Intersects", "intsHit", "range[0].body/if[1].cond", "Bool", B("incl"), map[string]string{"include": "incl"}),
		ex(xm, "Intersects", "intsHitRet", "range[0].body/if[1].body/return[0].result[0]", "Bool", nil, nil),
		ex(xm, "Intersects", "intsEndRet", "return[2].result[0]", "Bool", nil, nil),
		present(xm, "Intersects", "intsSortsBySize", "", "xsort.Slice(sets, func(a, b S) bool { return len(a) < len(b) })"),
		ex(xm, "Difference", "diffKeeps", "range[0].body/if[0].cond", "Bool", B("ok"), id("ok")),
		body(xm, "Difference", "diffBody", "range[0].body"),
	)
	// ------------------------------------------------------------------ statement shapes
	// The flattened statement list of every helper whose loop structure is mirrored by hand in
	// Model/Helpers*.lean. Proofs/HelpersShapes.lean pins each list (`shape_<helper>`, by rfl): when a
	// statement of such a helper is added, dropped, moved or edited, that theorem stops checking, so
	// the hand-written shape cannot drift from the source unnoticed.
	for _, sh := range [][3]string{
		{xs, "All", "shapeAll"}, {xs, "Chunk", "shapeChunk"}, {xs, "CountFunc", "shapeCountFunc"}, {xs, "Fill", "shapeFill"},
		{xs, "Group", "shapeGroup"}, {xs, "Join", "shapeJoin"}, {xs, "LastIndex", "shapeLastIndex"}, {xs, "LastIndexFunc", "shapeLastIndexFunc"},
		{xs, "Map", "shapeMap"}, {xs, "Partition", "shapePartition"}, {xs, "Reduce", "shapeReduce"}, {xs, "RemoveUnordered", "shapeRemoveUnordered"},
		{xs, "Repeat", "shapeRepeat"}, {xs, "Reverse", "shapeReverse"}, {xs, "Runs", "shapeRuns"}, {xs, "Shrink", "shapeShrink"},
		{xs, "Unique", "shapeUnique"}, {xs, "UniqueInPlace", "shapeUniqueInPlace"}, {xs, "uniqueInto", "shapeUniqueInto"},
		{so, "Search", "shapeSearch"}, {so, "mergeIterator.Next", "shapeMergeNext"}, {so, "Merge", "shapeMerge"}, {so, "MergeSlices", "shapeMergeSlices"},
		{so, "MinK", "shapeMinK"},
		{xm, "Reverse", "shapeMapReverse"}, {xm, "ReverseSingle", "shapeReverseSingle"}, {xm, "ToIndex", "shapeToIndex"},
		{xm, "FromKeysAndValues", "shapeFromKeysAndValues"}, {xm, "SetFromSlice", "shapeSetFromSlice"}, {xm, "Union", "shapeUnion"},
		{xm, "Intersection", "shapeIntersection"}, {xm, "Intersects", "shapeIntersects"}, {xm, "Difference", "shapeDifference"},
		{"xerrors", "WithStack", "shapeWithStack"}, {"xerrors", "withStack.Unwrap", "shapeUnwrap"},
		{"xmath/xrand", "rShuffle", "shapeRShuffle"}, {"xmath/xrand", "rSample", "shapeRSample"}, {"xmath/xrand", "rSampleSlice", "shapeRSampleSlice"},
		{"xmath/xrand", "rSampleIterator", "shapeRSampleIterator"}, {"xmath/xrand", "rSampleStream", "shapeRSampleStream"},
		{"xmath/xrand", "sampler.Next", "shapeSamplerNext"}, {"xmath/xrand", "newSampler", "shapeNewSampler"},
	} {
		register(stmts(sh[0], sh[1], sh[2]))
	}
	// ------------------------------------------------------------------ xmaps.Set, xmath.Min / Max
	register(
		stmts("xmaps", "Set.Add", "setAddBody"),
		stmts("xmaps", "Set.Remove", "setRemoveBody"),
		stmts("xmaps", "Set.Contains", "setContainsBody"),
		body("xmaps", "SetFromSlice", "sfsBody", "range[0].body"),
		// xrand: the package-level functions (what users call) delegate to the r* variants with the default
		// source, whose three methods are math/rand's top-level functions (C19 F2)
		w("xmath/xrand", "Sample", "pkgSampleW", "{D R : Type} (rSample : D → Int → Int → R) (dflt : D) (n k : Int) : R",
			map[string]string{"n": "n", "k": "k", "defaultRand{}": "dflt"}, map[string]string{"rSample": "rSample"}),
		w("xmath/xrand", "SampleSlice", "pkgSampleSliceW", "{D A R : Type} (rSampleSlice : D → A → Int → R) (dflt : D) (a : A) (k : Int) : R",
			map[string]string{"a": "a", "k": "k", "defaultRand{}": "dflt"}, map[string]string{"rSampleSlice": "rSampleSlice"}),
		w("xmath/xrand", "SampleIterator", "pkgSampleIteratorW", "{D I R : Type} (rSampleIterator : D → I → Int → R) (dflt : D) (iter : I) (k : Int) : R",
			map[string]string{"iter": "iter", "k": "k", "defaultRand{}": "dflt"}, map[string]string{"rSampleIterator": "rSampleIterator"}),
		w("xmath/xrand", "SampleStream", "pkgSampleStreamW", "{C D S R : Type} (rSampleStream : C → D → S → Int → R) (dflt : D) (ctx : C) (s : S) (k : Int) : R",
			map[string]string{"ctx": "ctx", "s": "s", "k": "k", "defaultRand{}": "dflt"}, map[string]string{"rSampleStream": "rSampleStream"}),
		w("xmath/xrand", "Shuffle", "pkgShuffleW", "{D A R : Type} (rShuffle : D → A → R) (dflt : D) (a : A) : R",
			map[string]string{"a": "a", "defaultRand{}": "dflt"}, map[string]string{"rShuffle": "rShuffle"}),
		w("xmath/xrand", "RSample", "expRSampleW", "{D R : Type} (rSample : D → Int → Int → R) (r : D) (n k : Int) : R",
			id("r", "n", "k"), map[string]string{"rSample": "rSample"}),
		w("xmath/xrand", "RSampleSlice", "expRSampleSliceW", "{D A R : Type} (rSampleSlice : D → A → Int → R) (r : D) (a : A) (k : Int) : R",
			id("r", "a", "k"), map[string]string{"rSampleSlice": "rSampleSlice"}),
		w("xmath/xrand", "RSampleIterator", "expRSampleIteratorW", "{D I R : Type} (rSampleIterator : D → I → Int → R) (r : D) (iter : I) (k : Int) : R",
			id("r", "iter", "k"), map[string]string{"rSampleIterator": "rSampleIterator"}),
		w("xmath/xrand", "RSampleStream", "expRSampleStreamW", "{C D S R : Type} (rSampleStream : C → D → S → Int → R) (r : D) (ctx : C) (s : S) (k : Int) : R",
			id("ctx", "r", "s", "k"), map[string]string{"rSampleStream": "rSampleStream"}),
		w("xmath/xrand", "RShuffle", "expRShuffleW", "{D A R : Type} (rShuffle : D → A → R) (r : D) (a : A) : R",
			id("r", "a"), map[string]string{"rShuffle": "rShuffle"}),
		w("xmath/xrand", "defaultRand.Float64", "dfltFloat64W", "{R : Type} (randFloat64 : R) : R", nil, map[string]string{"rand.Float64": "randFloat64"}),
		w("xmath/xrand", "defaultRand.Intn", "dfltIntnW", "{R : Type} (randIntn : Int → R) (n : Int) : R", id("n"), map[string]string{"rand.Intn": "randIntn"}),
		w("xmath/xrand", "defaultRand.Shuffle", "dfltShuffleW", "{S R : Type} (randShuffle : Int → S → R) (n : Int) (swap : S) : R", id("n", "swap"),
			map[string]string{"rand.Shuffle": "randShuffle"}),
		w("xmath", "Min", "minW", "{T : Type} (builtinMin : T → T → T) (a b : T) : T", id("a", "b"), map[string]string{"min": "builtinMin"}),
		w("xmath", "Max", "maxW", "{T : Type} (builtinMax : T → T → T) (a b : T) : T", id("a", "b"), map[string]string{"max": "builtinMax"}),
	)
	helpersFixedWidth()
}
