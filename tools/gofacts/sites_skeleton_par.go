package main

// Control skeletons -> Juniper.Gen.SkeletonPar. Consumed by Proofs/SkeletonPar.lean (C13, C14 and the
// MapStream clauses of C08/C09) and Proofs/SkeletonGroup.lean (C17).
//
// The LTS models of parallel.Do / DoContext / MapIterator / MapStream (Model/ParDo.lean,
// Model/ParMap.lean) and of xsync.Group (Model/Group.lean) hard-wire *which statement follows which* in
// the worker loops, the dispatcher, Next, Close, spawn, Stop, StopAndWait and the Trigger / Periodic /
// PeriodicOrTrigger loops; the other site files only extract guards, select tables and the presence of
// individual statements by their text. A control skeleton is the sequence of statement *kinds* of a
// body with every identifier and expression normalised away:
//
//	assign        x = e, x += e, x++ / x--
//	define        x := e, var x = e
//	decl          var x T (no value), other declarations
//	call          a call statement whose callee is a plain name: `f(i)`, `close(in)`, a function literal
//	mcall         a call statement whose callee is selected: `wg.Wait()`, `g.m.RLock()`, `pkg.F()`
//	recv          `<-c` as a statement
//	send          c <- v                                         expr   any other expression statement
//	              (the called function of go / defer statements is not distinguished)
//	return break continue goto fallthrough
//	go defer      (the called function literal's body, if any, is nested)
//	if{…}else{…}  for{…} (with a condition or a range-less header)  forever{…} (`for {`)  range{…}
//	select{recv{…};send{…};default{…}}   (arms sorted: their order has no meaning in Go)
//	switch{case{…};default{…}}  block{…}  label:<stmt>
//
// A compound statement nests the skeleton of its blocks; function literals that occur in a simple
// statement (`eg.Go(func() error {…})`, `return func() {…}`) nest their bodies the same way. An `if` /
// `switch` with an init statement counts as that statement followed by the `if` / `switch`. Below the
// depth limit of a site a compound statement is printed as `kind{..}`.
//
// Renaming variables, rewriting conditions or arguments, reordering select arms, hoisting an `if`
// initialiser, `i++` versus `i += 1` do not change a skeleton; adding, removing or reordering a statement,
// an added early return or fast path, a loop gaining or losing its condition, a statement moving into
// or out of a goroutine / deferred call do. The expected values live in the tie lemmas
// (`… = […] := by decide`), not here.

import (
	"fmt"
	"go/ast"
	"go/token"
	"sort"
	"strings"
)

// pskelLits returns the skeletons of the bodies of the function literals that occur in an expression
// or simple statement, in source order, not descending into nested literals (those are rendered as
// part of their enclosing literal's body).
func pskelLits(c *Ctx, n ast.Node, depth int) []string {
	var out []string
	if n == nil {
		return nil
	}
	ast.Inspect(n, func(x ast.Node) bool {
		if fl, ok := x.(*ast.FuncLit); ok {
			out = append(out, pskelBlock(c, fl.Body.List, depth))
			return false
		}
		return true
	})
	return out
}

// pskelBlock renders a statement list as `a;b;c` (depth < 0: `..`).
func pskelBlock(c *Ctx, list []ast.Stmt, depth int) string {
	if depth < 0 {
		return ".."
	}
	var parts []string
	for _, s := range list {
		parts = append(parts, pskelStmt(c, s, depth)...)
	}
	return strings.Join(parts, ";")
}

func pskelWithLits(c *Ctx, kind string, n ast.Node, depth int) string {
	lits := pskelLits(c, n, depth-1)
	if len(lits) == 0 {
		return kind
	}
	return kind + "{" + strings.Join(lits, "|") + "}"
}

// pskelStmt renders one statement (a hoisted init statement yields a second element).
func pskelStmt(c *Ctx, s ast.Stmt, depth int) []string {
	br := func(kind string, list []ast.Stmt) string {
		return kind + "{" + pskelBlock(c, list, depth-1) + "}"
	}
	switch x := s.(type) {
	case nil:
		return nil
	case *ast.EmptyStmt:
		return nil
	case *ast.AssignStmt:
		kind := "assign"
		if x.Tok == token.DEFINE {
			kind = "define"
		}
		return []string{pskelWithLits(c, kind, x, depth)}
	case *ast.IncDecStmt:
		return []string{"assign"}
	case *ast.DeclStmt:
		kind := "decl"
		if gd, ok := x.Decl.(*ast.GenDecl); ok && gd.Tok == token.VAR {
			for _, sp := range gd.Specs {
				if vs, ok := sp.(*ast.ValueSpec); ok && len(vs.Values) > 0 {
					kind = "define"
				}
			}
		}
		return []string{pskelWithLits(c, kind, x, depth)}
	case *ast.ExprStmt:
		kind := "expr"
		switch e := x.X.(type) {
		case *ast.CallExpr:
			kind = "call"
			if _, ok := e.Fun.(*ast.SelectorExpr); ok {
				kind = "mcall"
			}
		case *ast.UnaryExpr:
			if e.Op == token.ARROW {
				kind = "recv"
			}
		}
		return []string{pskelWithLits(c, kind, x, depth)}
	case *ast.SendStmt:
		return []string{pskelWithLits(c, "send", x, depth)}
	case *ast.GoStmt:
		return []string{pskelWithLits(c, "go", x.Call, depth)}
	case *ast.DeferStmt:
		return []string{pskelWithLits(c, "defer", x.Call, depth)}
	case *ast.ReturnStmt:
		return []string{pskelWithLits(c, "return", x, depth)}
	case *ast.BranchStmt:
		return []string{x.Tok.String()}
	case *ast.BlockStmt:
		return []string{br("block", x.List)}
	case *ast.LabeledStmt:
		in := pskelStmt(c, x.Stmt, depth)
		if len(in) == 0 {
			return []string{"label:"}
		}
		in[len(in)-1] = "label:" + in[len(in)-1]
		return in
	case *ast.IfStmt:
		var out []string
		if x.Init != nil {
			out = append(out, pskelStmt(c, x.Init, depth)...)
		}
		t := br("if", x.Body.List)
		switch e := x.Else.(type) {
		case *ast.BlockStmt:
			t += br("else", e.List)
		case *ast.IfStmt:
			t += "else{" + strings.Join(pskelStmt(c, e, depth-1), ";") + "}"
		}
		return append(out, t)
	case *ast.ForStmt:
		if x.Cond == nil && x.Init == nil && x.Post == nil {
			return []string{br("forever", x.Body.List)}
		}
		return []string{br("for", x.Body.List)}
	case *ast.RangeStmt:
		return []string{br("range", x.Body.List)}
	case *ast.SelectStmt:
		var arms []string
		for _, st := range x.Body.List {
			cc := st.(*ast.CommClause)
			kind := "default"
			switch m := cc.Comm.(type) {
			case *ast.SendStmt:
				kind = "send"
			case *ast.ExprStmt, *ast.AssignStmt:
				_ = m
				kind = "recv"
			}
			arms = append(arms, br(kind, cc.Body))
		}
		sort.Strings(arms)
		if depth-1 < 0 {
			return []string{"select{..}"}
		}
		return []string{"select{" + strings.Join(arms, ";") + "}"}
	case *ast.SwitchStmt, *ast.TypeSwitchStmt:
		var out []string
		var body *ast.BlockStmt
		if sw, ok := x.(*ast.SwitchStmt); ok {
			if sw.Init != nil {
				out = append(out, pskelStmt(c, sw.Init, depth)...)
			}
			body = sw.Body
		} else {
			ts := x.(*ast.TypeSwitchStmt)
			if ts.Init != nil {
				out = append(out, pskelStmt(c, ts.Init, depth)...)
			}
			body = ts.Body
		}
		if depth-1 < 0 {
			return append(out, "switch{..}")
		}
		var cases []string
		for _, st := range body.List {
			cc := st.(*ast.CaseClause)
			kind := "case"
			if cc.List == nil {
				kind = "default"
			}
			cases = append(cases, br(kind, cc.Body))
		}
		return append(out, "switch{"+strings.Join(cases, ";")+"}")
	}
	return []string{fmt.Sprintf("other:%T", s)}
}

// pskelSite emits `def <name> : List String`: the skeleton of the body selected by sel (a block, a
// function literal or a statement with a body; "" = the function body), one element per top-level
// statement, nested to the given depth.
func pskelSite(pkg, fn, name, sel string, depth int) Site {
	return Site{Module: "SkeletonPar", Pkg: pkg, Func: fn, Name: name, Kind: Custom, Sel: sel,
		Custom: func(c *Ctx, s *Site) (string, error) {
			fd, err := c.FindFunc(s.Pkg, s.Func)
			if err != nil {
				return "", err
			}
			var list []ast.Stmt = fd.Body.List
			if s.Sel != "" {
				n, err := c.SelectPath(fd, s.Sel)
				if err != nil {
					return "", err
				}
				switch b := n.(type) {
				case *ast.BlockStmt:
					list = b.List
				case *ast.FuncLit:
					list = b.Body.List
				case *ast.ForStmt:
					list = b.Body.List
				case *ast.RangeStmt:
					list = b.Body.List
				default:
					return "", fmt.Errorf("selector %q is not a block", s.Sel)
				}
			}
			var elems []string
			for _, st := range list {
				elems = append(elems, pskelStmt(c, st, depth)...)
			}
			q := make([]string, len(elems))
			for i, e := range elems {
				q[i] = leanString(e)
			}
			where := s.Sel
			if where == "" {
				where = "body"
			}
			return fmt.Sprintf("/-- control skeleton (statement kinds, identifiers and expressions normalised away, nesting depth %d) of `%s` %s -/\ndef %s : List String := [%s]\n",
				depth, s.Func, where, s.Name, strings.Join(q, ",\n  ")), nil
		}}
}

func init() {
	const full = 8
	par := func(fn, name, sel string, depth int) Site { return pskelSite("parallel", fn, name, sel, depth) }
	grp := func(fn, name, sel string, depth int) Site { return pskelSite("xsync", fn, name, sel, depth) }
	register(
		// parallel.Do / DoContext: clamping and fast path at the top, the sequential loop, the worker loop
		par("Do", "pskelDo", "", 1),
		par("Do", "pskelDoSeq", "if[2].body", full),
		par("Do", "pskelDoWorker", "funclit[0]", full),
		par("DoContext", "pskelDoContext", "", 1),
		par("DoContext", "pskelDoContextSeq", "if[2].body", full),
		par("DoContext", "pskelDoContextWorker", "funclit[0]", full),
		par("Map", "pskelMap", "", full),
		par("MapContext", "pskelMapContext", "", full),
		// parallel.MapIterator: funclit[0] is the heap comparison, funclit[1] the dispatcher, funclit[2] the worker
		par("MapIterator", "pskelMapIterator", "", 1),
		par("MapIterator", "pskelMapIteratorDispatcher", "funclit[1]", full),
		par("MapIterator", "pskelMapIteratorWorker", "funclit[2]", full),
		par("mapIterator.Next", "pskelMapIteratorNext", "", full),
		// parallel.MapStream: funclit[0] is the dispatcher, funclit[1] the worker
		par("MapStream", "pskelMapStream", "", 1),
		par("MapStream", "pskelMapStreamDispatcher", "funclit[0]", full),
		par("MapStream", "pskelMapStreamWorker", "funclit[1]", full),
		par("mapStream.Next", "pskelMapStreamNext", "", full),
		par("mapStream.Close", "pskelMapStreamClose", "", full),
		// xsync.Group
		grp("Group.spawn", "pskelGroupSpawn", "", full),
		grp("Group.Do", "pskelGroupDo", "", full),
		grp("Group.Stop", "pskelGroupStop", "", full),
		grp("Group.StopAndWait", "pskelGroupStopAndWait", "", full),
		grp("Group.Trigger", "pskelGroupTrigger", "", full),
		grp("Group.Periodic", "pskelGroupPeriodic", "", full),
		grp("Group.PeriodicOrTrigger", "pskelGroupPeriodicOrTrigger", "", full),
	)
}
