package main

// stream.BatchFunc: where its background context comes from, who can cancel it, and who is given it
// -> Juniper.Gen.Batch (consumed by Model/Batch.lean: `Code.bgOrigin`, `bgCancelOnlyInClose`,
// `srcNextGetsBg`, and pinned inside the C11 property theorems).
//
// The LTS says "bgCtx is done exactly when Close has run `bgCancel()`". That rests on three things no
// arm table or statement skeleton sees: the right-hand side of `bgCtx, bgCancel := …` (a
// `context.WithTimeout` there ends the background work after a while of its own accord), the places
// where `bgCancel` is used (a `time.AfterFunc(d, bgCancel)` does the same), and the places `bgCtx`
// is used (the producer must hand *it* to the source's Next, or Close cannot wake the producer).
//
// Also here (operand-level facts of the same kind, audit C11 F3): the arguments with which `Batch`
// calls `BatchFunc`, the condition under which `stopTimer` drains the timer channel, and what
// `flush` assigns to `batch` after the hand-over.

import (
	"fmt"
	"go/ast"
	"strings"
)

func init() {
	const pkg = "stream"
	const mod = "Batch"
	custom := func(name, fn string, f func(c *Ctx, s *Site) (string, error)) Site {
		return Site{Module: mod, Pkg: pkg, Func: fn, Name: name, Kind: Custom, Custom: f}
	}
	register(
		custom("bgCtxAssigns", "BatchFunc", bgCtxAssigns),
		custom("bgCancelUses", "BatchFunc", func(c *Ctx, s *Site) (string, error) { return batchIdentUses(c, s, "bgCancel") }),
		custom("bgCtxUses", "BatchFunc", func(c *Ctx, s *Site) (string, error) { return batchIdentUses(c, s, "bgCtx") }),
		custom("srcNextCtxArg", "BatchFunc", srcNextCtxArg),
		// Batch forwards s and maxWait unchanged
		custom("batchCallArgs", "Batch", batchCallArgs),
		Site{Module: mod, Pkg: pkg, Func: "Batch", Name: "batchMaxWaitArg", Kind: Expr, Sel: "call[BatchFunc][0].arg[1]",
			Type: "Int", Params: []Param{{"maxWait", "Int"}}, Vars: map[string]string{"maxWait": "maxWait"}},
		custom("stopTimerDrainCond", "BatchFunc", stopTimerDrainCond),
		custom("flushBatchReset", "BatchFunc", flushBatchReset),
	)
}

func leanStrList(xs []string) string {
	q := make([]string, len(xs))
	for i, x := range xs {
		q[i] = leanString(x)
	}
	if len(q) <= 1 {
		return "[" + strings.Join(q, ", ") + "]"
	}
	return "[" + strings.Join(q, ",\n  ") + "]"
}

// mentions reports whether the expression list contains the identifier `name` (as a plain identifier).
func mentions(xs []ast.Expr, names ...string) bool {
	for _, x := range xs {
		if id, ok := x.(*ast.Ident); ok {
			for _, n := range names {
				if id.Name == n {
					return true
				}
			}
		}
	}
	return false
}

// bgCtxAssigns: every assignment / definition / var declaration in BatchFunc (closures included) that
// has `bgCtx` or `bgCancel` on its left-hand side, printed on one line; and, for the first of them,
// the constructor it calls, that call's first argument (the parent context) and its number of
// arguments.
func bgCtxAssigns(c *Ctx, s *Site) (string, error) {
	fd, err := c.FindFunc("stream", "BatchFunc")
	if err != nil {
		return "", err
	}
	var all []string
	ctor, parent, nargs := "", "", 0
	first := true
	note := func(rhs []ast.Expr) {
		if !first {
			return
		}
		first = false
		if len(rhs) == 1 {
			if call, ok := rhs[0].(*ast.CallExpr); ok {
				ctor = c.Text(call.Fun)
				nargs = len(call.Args)
				if nargs > 0 {
					parent = c.Text(call.Args[0])
				}
				return
			}
			ctor = c.Text(rhs[0])
		}
	}
	ast.Inspect(fd.Body, func(n ast.Node) bool {
		switch x := n.(type) {
		case *ast.AssignStmt:
			if mentions(x.Lhs, "bgCtx", "bgCancel") {
				all = append(all, c.Pretty(x))
				note(x.Rhs)
			}
		case *ast.ValueSpec:
			for _, id := range x.Names {
				if id.Name == "bgCtx" || id.Name == "bgCancel" {
					all = append(all, "var "+c.Pretty(x))
					note(x.Values)
					break
				}
			}
		case *ast.RangeStmt:
			var lhs []ast.Expr
			if x.Key != nil {
				lhs = append(lhs, x.Key)
			}
			if x.Value != nil {
				lhs = append(lhs, x.Value)
			}
			if mentions(lhs, "bgCtx", "bgCancel") {
				all = append(all, "range "+c.Pretty(x.X))
				note(nil)
			}
		}
		return true
	})
	if len(all) == 0 {
		return "", fmt.Errorf("no assignment to bgCtx / bgCancel in BatchFunc")
	}
	var b strings.Builder
	fmt.Fprintf(&b, "/-- every assignment / definition in `BatchFunc` (closures included) with `bgCtx` or `bgCancel` on its left-hand side -/\ndef %s : List String := %s\n\n", s.Name, leanStrList(all))
	fmt.Fprintf(&b, "/-- the function the first of them calls, that call's first argument (the parent context) and its number of arguments -/\ndef bgCtxCtor : String := %s\ndef bgCtxParent : String := %s\ndef bgCtxCtorArgs : Nat := %d\n", leanString(ctor), leanString(parent), nargs)
	return b.String(), nil
}

// batchIdentUses lists every occurrence of an identifier with the given name in the package `stream`
// (variables, struct fields, selectors — anything spelled that way), in source order, as
// "<enclosing function or type>: <smallest enclosing statement / field / key-value, on one line>".
// Function literals are named by their position: `BatchFunc.func0` is the first function literal of
// BatchFunc, `BatchFunc.func1.func2` the third literal inside the second.
func batchIdentUses(c *Ctx, s *Site, name string) (string, error) {
	files, err := c.files("stream")
	if err != nil {
		return "", err
	}
	var out []string
	lhs := map[*ast.Ident]string{} // identifiers that are assigned / defined: how
	var walk func(n ast.Node, where string, ctx string)
	walk = func(root ast.Node, where string, ctx0 string) {
		lits := 0
		// stack of contexts: the innermost simple statement / key-value / field seen on the way down
		type frame struct {
			n   ast.Node
			ctx string
		}
		var stack []frame
		cur := func() string {
			if len(stack) == 0 {
				return ctx0
			}
			return stack[len(stack)-1].ctx
		}
		ast.Inspect(root, func(n ast.Node) bool {
			if n == nil {
				stack = stack[:len(stack)-1]
				return true
			}
			ctx := cur()
			switch x := n.(type) {
			case *ast.FuncLit:
				if x != root {
					walk(x.Body, fmt.Sprintf("%s.func%d", where, lits), ctx)
					lits++
					return false // no push, no pop
				}
			case *ast.Field:
				var names []string
				for _, id := range x.Names {
					names = append(names, id.Name)
				}
				ctx = "field " + strings.Join(names, ", ") + " " + c.Text(x.Type)
			case *ast.AssignStmt, *ast.ExprStmt, *ast.SendStmt, *ast.IncDecStmt, *ast.ReturnStmt, *ast.DeferStmt, *ast.GoStmt,
				*ast.KeyValueExpr, *ast.ValueSpec:
				if as, ok := x.(*ast.AssignStmt); ok {
					for _, l := range as.Lhs {
						if id, ok := l.(*ast.Ident); ok {
							lhs[id] = "assigned (" + as.Tok.String() + ")"
						}
					}
				}
				if containsFuncLit(x) {
					ctx = ""
				} else {
					ctx = c.Pretty(x)
				}
			case *ast.IfStmt:
				ctx = "if " + c.Pretty(x.Cond)
			case *ast.CommClause:
				if x.Comm != nil {
					ctx = "case " + c.Pretty(x.Comm)
				} else {
					ctx = "default"
				}
			case *ast.BlockStmt, *ast.SelectStmt, *ast.ForStmt, *ast.RangeStmt, *ast.SwitchStmt, *ast.CaseClause:
				ctx = ""
			case *ast.Ident:
				if x.Name == name {
					t := ctx
					if how, ok := lhs[x]; ok {
						t = how
					}
					if t == "" {
						t = "?"
					}
					out = append(out, where+": "+t)
				}
			}
			stack = append(stack, frame{n, ctx})
			return true
		})
	}
	for _, f := range files {
		for _, d := range f.Decls {
			switch x := d.(type) {
			case *ast.FuncDecl:
				full := x.Name.Name
				if r := recvName(x); r != "" {
					full = r + "." + full
				}
				walk(x, full, "")
			case *ast.GenDecl:
				for _, sp := range x.Specs {
					switch y := sp.(type) {
					case *ast.TypeSpec:
						walk(y, "type "+y.Name.Name, "")
					default:
						walk(y, "package", "")
					}
				}
			}
		}
	}
	return fmt.Sprintf("/-- every occurrence of an identifier spelled `%s` in package stream: where, and the smallest enclosing statement -/\ndef %s : List String := %s\n", name, s.Name, leanStrList(out)), nil
}

func containsFuncLit(n ast.Node) bool {
	found := false
	ast.Inspect(n, func(x ast.Node) bool {
		if _, ok := x.(*ast.FuncLit); ok {
			found = true
		}
		return !found
	})
	return found
}

// srcNextCtxArg: the context argument of the producer's call of the source's Next.
func srcNextCtxArg(c *Ctx, s *Site) (string, error) {
	fl, err := producerFuncLit(c)
	if err != nil {
		return "", err
	}
	var args []string
	ast.Inspect(fl.Body, func(n ast.Node) bool {
		if call, ok := n.(*ast.CallExpr); ok && c.Text(call.Fun) == "s.Next" {
			a := "?"
			if len(call.Args) == 1 {
				a = c.Text(call.Args[0])
			}
			args = append(args, a)
		}
		return true
	})
	if len(args) != 1 {
		return "", fmt.Errorf("expected exactly one call of s.Next in the producer, found %d", len(args))
	}
	return fmt.Sprintf("/-- the argument of the producer's `s.Next(…)` in `BatchFunc` -/\ndef %s : String := %s\n", s.Name, leanString(args[0])), nil
}

// batchCallArgs: the arguments of the `BatchFunc(…)` call in `Batch` (function literals as "func").
func batchCallArgs(c *Ctx, s *Site) (string, error) {
	fd, err := c.FindFunc("stream", "Batch")
	if err != nil {
		return "", err
	}
	var calls []*ast.CallExpr
	ast.Inspect(fd.Body, func(n ast.Node) bool {
		if call, ok := n.(*ast.CallExpr); ok && c.Text(call.Fun) == "BatchFunc" {
			calls = append(calls, call)
		}
		return true
	})
	if len(calls) != 1 {
		return "", fmt.Errorf("expected exactly one call of BatchFunc in Batch, found %d", len(calls))
	}
	var args []string
	for _, a := range calls[0].Args {
		if _, ok := a.(*ast.FuncLit); ok {
			args = append(args, "func")
		} else {
			args = append(args, c.Text(a))
		}
	}
	return fmt.Sprintf("/-- arguments of the `BatchFunc(…)` call in `Batch` (a function literal is \"func\") -/\ndef %s : List String := %s\n", s.Name, leanStrList(args)), nil
}

func batcherLit(c *Ctx, path string) (*ast.FuncLit, error) {
	fd, err := c.FindFunc("stream", "BatchFunc")
	if err != nil {
		return nil, err
	}
	n, err := c.SelectPath(fd, path)
	if err != nil {
		return nil, err
	}
	fl, ok := n.(*ast.FuncLit)
	if !ok {
		return nil, fmt.Errorf("%s is not a function literal", path)
	}
	return fl, nil
}

// stopTimerDrainCond: the condition of the `if` in stopTimer whose body receives from the timer's
// channel (`<-timerC`), and the channel it receives from.
func stopTimerDrainCond(c *Ctx, s *Site) (string, error) {
	fl, err := batcherLit(c, "funclit[1]/funclit[2]")
	if err != nil {
		return "", err
	}
	var conds, chans []string
	ast.Inspect(fl.Body, func(n ast.Node) bool {
		ifs, ok := n.(*ast.IfStmt)
		if !ok {
			return true
		}
		for _, st := range ifs.Body.List {
			if es, ok := st.(*ast.ExprStmt); ok {
				if u, ok := es.X.(*ast.UnaryExpr); ok && u.Op.String() == "<-" {
					conds = append(conds, c.Pretty(ifs.Cond))
					chans = append(chans, c.Text(u.X))
				}
			}
		}
		return true
	})
	if len(conds) != 1 {
		return "", fmt.Errorf("expected exactly one guarded drain receive in stopTimer, found %d", len(conds))
	}
	return fmt.Sprintf("/-- `stopTimer` in `BatchFunc`: the condition under which it drains the timer channel, and the channel it receives from -/\ndef %s : String := %s\ndef stopTimerDrainChan : String := %s\n", s.Name, leanString(conds[0]), leanString(chans[0])), nil
}

// flushBatchReset: what `flush` assigns to `batch` after the hand-over: the called function and its
// arguments up to the capacity (a fresh slice: `make([]T, 0, …)`; `batch[:0]` would alias the slice
// just handed to the consumer).
func flushBatchReset(c *Ctx, s *Site) (string, error) {
	fl, err := batcherLit(c, "funclit[1]/funclit[1]")
	if err != nil {
		return "", err
	}
	var rhs []string
	ast.Inspect(fl.Body, func(n ast.Node) bool {
		as, ok := n.(*ast.AssignStmt)
		if !ok || len(as.Lhs) != 1 || len(as.Rhs) != 1 || c.Text(as.Lhs[0]) != "batch" {
			return true
		}
		t := c.Text(as.Rhs[0])
		if call, ok := as.Rhs[0].(*ast.CallExpr); ok && len(call.Args) >= 2 {
			t = c.Text(call.Fun) + "(" + c.Text(call.Args[0]) + "," + c.Text(call.Args[1]) + ",…)"
		}
		rhs = append(rhs, t)
		return true
	})
	if len(rhs) != 1 {
		return "", fmt.Errorf("expected exactly one assignment to batch in flush, found %d", len(rhs))
	}
	return fmt.Sprintf("/-- what `flush` in `BatchFunc` assigns to `batch` after the hand-over (capacity elided) -/\ndef %s : String := %s\n", s.Name, leanString(rhs[0])), nil
}
