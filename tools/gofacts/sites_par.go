package main

// parallel/parallel.go -> Juniper.Gen.Par. Consumed by Model/ParDo.lean (C13) and Model/ParMap.lean
// (C14, MapStream clauses of C08/C09).

import (
	"fmt"
	"go/ast"
)

// stmtBefore emits a Bool: in the scope, the first simple statement with text a occurs (pre-order,
// function literals included) before the first one with text b, and both occur.
func stmtBefore(mod, pkg, fn, sel, name, a, b string) Site {
	return Site{Module: mod, Pkg: pkg, Func: fn, Name: name, Kind: Custom, Sel: sel,
		Custom: func(c *Ctx, s *Site) (string, error) {
			fd, err := c.FindFunc(s.Pkg, s.Func)
			if err != nil {
				return "", err
			}
			var scope ast.Node = fd.Body
			if s.Sel != "" {
				scope, err = c.SelectPath(fd, s.Sel)
				if err != nil {
					return "", err
				}
			}
			wa, wb := stripSpace(a), stripSpace(b)
			pa, pb, pos := -1, -1, 0
			ast.Inspect(scope, func(x ast.Node) bool {
				if x == nil {
					return false
				}
				if st, ok := x.(ast.Stmt); ok {
					switch st.(type) {
					case *ast.BlockStmt, *ast.IfStmt, *ast.ForStmt, *ast.RangeStmt, *ast.SelectStmt, *ast.SwitchStmt:
					default:
						pos++
						t := c.Text(st)
						if t == wa && pa < 0 {
							pa = pos
						}
						if t == wb && pb < 0 {
							pb = pos
						}
					}
				}
				return true
			})
			v := pa >= 0 && pb >= 0 && pa < pb
			return fmt.Sprintf("/-- `%s` precedes `%s` in `%s` %s -/\ndef %s : Bool := %v\n", a, b, s.Func, s.Sel, s.Name, v), nil
		}}
}

// pathExists emits a Bool: the selector path resolves in the function.
func pathExists(mod, pkg, fn, sel, name string) Site {
	return Site{Module: mod, Pkg: pkg, Func: fn, Name: name, Kind: Custom, Sel: sel,
		Custom: func(c *Ctx, s *Site) (string, error) {
			fd, err := c.FindFunc(s.Pkg, s.Func)
			if err != nil {
				return "", err
			}
			_, err = c.SelectPath(fd, s.Sel)
			return fmt.Sprintf("/-- `%s` resolves in `%s` -/\ndef %s : Bool := %v\n", s.Sel, s.Func, s.Name, err == nil), nil
		}}
}

// parChanCap emits the capacity expression of the make(chan ...) call selected by sel (0 if the call
// has no capacity argument), as an Int term over the given parameters.
func parChanCap(mod, pkg, fn, sel, name string, ps []Param, vars map[string]string) Site {
	return Site{Module: mod, Pkg: pkg, Func: fn, Name: name, Kind: Custom, Sel: sel, Params: ps, Vars: vars,
		Custom: func(c *Ctx, s *Site) (string, error) {
			fd, err := c.FindFunc(s.Pkg, s.Func)
			if err != nil {
				return "", err
			}
			n, err := c.SelectPath(fd, s.Sel)
			if err != nil {
				return "", err
			}
			call, ok := n.(*ast.CallExpr)
			if !ok || c.Text(call.Fun) != "make" || len(call.Args) < 1 {
				return "", fmt.Errorf("selector %q is not a make(...) call", s.Sel)
			}
			if _, ok := call.Args[0].(*ast.ChanType); !ok {
				return "", fmt.Errorf("selector %q does not make a channel", s.Sel)
			}
			term := "(0 : Int)"
			if len(call.Args) >= 2 {
				env := &trEnv{c: c, s: s, locals: map[string]string{}, consts: map[string]string{}}
				t, _, err := env.tr(call.Args[1])
				if err != nil {
					return "", err
				}
				term = t
			}
			return fmt.Sprintf("/-- capacity of `%s` in `%s` (%s) -/\ndef %s%s : Int := %s\n", c.Pretty(call), s.Func, s.Sel, s.Name, paramsText(s.Params), term), nil
		}}
}

func init() {
	const pkg = "parallel"
	const mod = "Par"
	pI := func(names ...string) []Param {
		var out []Param
		for _, n := range names {
			out = append(out, Param{n, "Int"})
		}
		return out
	}
	id := func(names ...string) map[string]string {
		m := map[string]string{}
		for _, n := range names {
			m[n] = n
		}
		return m
	}
	e := func(fn, name, sel, typ string, ps []Param, vars map[string]string, calls map[string]string) Site {
		return Site{Module: mod, Pkg: pkg, Func: fn, Name: name, Kind: Expr, Sel: sel, Type: typ, Params: ps, Vars: vars, Calls: calls}
	}
	present := func(fn, name, sel, text string) Site {
		return Site{Module: mod, Pkg: pkg, Func: fn, Name: name, Kind: Present, Sel: sel, Text: text}
	}
	sel := func(fn, name, s string) Site {
		return Site{Module: mod, Pkg: pkg, Func: fn, Name: name, Kind: Select, Sel: s}
	}
	bP := []Param{{"failed", "Bool"}}
	conv := map[string]string{"int": "id", "int32": "id", "uint32": "id"}

	// ------------------------------------------------------------------------------------ Do
	register(
		e("Do", "doClampLow", "if[0].cond", "Bool", pI("parallelism"), id("parallelism"), nil),
		e("Do", "doClampHigh", "if[1].cond", "Bool", pI("parallelism", "n"), id("parallelism", "n"), nil),
		e("Do", "doSeq", "if[2].cond", "Bool", pI("parallelism"), id("parallelism"), nil),
		e("Do", "doSeqLoop", "if[2].body/for[0].cond", "Bool", pI("i", "n"), id("i", "n"), nil),
		present("Do", "doSeqCalls", "if[2].body/for[0].body", "f(i)"),
		present("Do", "doSeqReturns", "if[2].body", "return"),
		e("Do", "doCounterInit", "assign[x][0].rhs", "Int", nil, nil, conv),
		e("Do", "doSpawnLoop", "for[1].cond", "Bool", pI("j", "parallelism"), id("j", "parallelism"), nil),
		pathExists(mod, pkg, "Do", "for[1].body/go[0]", "doSpawnsGoroutine"),
		e("Do", "doFetch", "funclit[0]/assign[i][0].rhs", "Int", pI("xAfter"), map[string]string{"atomic.AddInt32(&x,1)": "xAfter"}, conv),
		e("Do", "doCounterDelta", "funclit[0]/call[atomic.AddInt32][0].arg[1]", "Int", nil, nil, nil),
		e("Do", "doWorkerDone", "funclit[0]/if[0].cond", "Bool", pI("i", "n"), id("i", "n"), nil),
		present("Do", "doWorkerReturnsWhenDone", "funclit[0]/if[0].body", "return"),
		present("Do", "doWorkerCalls", "funclit[0]/for[0].body", "f(i)"),
		stmtBefore(mod, pkg, "Do", "funclit[0]/for[0].body", "doFetchBeforeCall", "i := int(atomic.AddInt32(&x, 1))", "f(i)"),
		present("Do", "doWgAdd", "", "wg.Add(parallelism)"),
		present("Do", "doWgDone", "funclit[0]", "defer wg.Done()"),
		present("Do", "doWgWait", "", "wg.Wait()"),
		stmtBefore(mod, pkg, "Do", "", "doAddBeforeWait", "wg.Add(parallelism)", "wg.Wait()"),
	)

	// ------------------------------------------------------------------------------------ DoContext
	register(
		e("DoContext", "dcClampLow", "if[0].cond", "Bool", pI("parallelism"), id("parallelism"), nil),
		e("DoContext", "dcClampHigh", "if[1].cond", "Bool", pI("parallelism", "n"), id("parallelism", "n"), nil),
		e("DoContext", "dcSeq", "if[2].cond", "Bool", pI("parallelism"), id("parallelism"), nil),
		e("DoContext", "dcSeqLoop", "if[2].body/for[0].cond", "Bool", pI("i", "n"), id("i", "n"), nil),
		present("DoContext", "dcSeqCalls", "if[2].body/for[0].body", "err := f(ctx, i)"),
		e("DoContext", "dcSeqStops", "if[2].body/for[0].body/if[0].cond", "Bool", bP, map[string]string{"err!=nil": "failed"}, nil),
		present("DoContext", "dcSeqReturnsErr", "if[2].body/for[0].body/if[0].body", "return err"),
		present("DoContext", "dcSeqReturnsNil", "if[2].body", "return nil"),
		e("DoContext", "dcCounterInit", "assign[x][0].rhs", "Int", nil, nil, conv),
		present("DoContext", "dcErrgroup", "", "eg, ctx := errgroup.WithContext(ctx)"),
		e("DoContext", "dcSpawnLoop", "for[1].cond", "Bool", pI("j", "parallelism"), id("j", "parallelism"), nil),
		e("DoContext", "dcFetch", "funclit[0]/assign[i][0].rhs", "Int", pI("xAfter"), map[string]string{"atomic.AddInt32(&x,1)": "xAfter"}, conv),
		e("DoContext", "dcCounterDelta", "funclit[0]/call[atomic.AddInt32][0].arg[1]", "Int", nil, nil, nil),
		e("DoContext", "dcWorkerDone", "funclit[0]/if[0].cond", "Bool", pI("i", "n"), id("i", "n"), nil),
		present("DoContext", "dcWorkerReturnsNilWhenDone", "funclit[0]/if[0].body", "return nil"),
		e("DoContext", "dcWorkerCancelled", "funclit[0]/if[1].cond", "Bool", []Param{{"cancelled", "Bool"}}, map[string]string{"ctx.Err()!=nil": "cancelled"}, nil),
		present("DoContext", "dcWorkerReturnsCtxErr", "funclit[0]/if[1].body", "return ctx.Err()"),
		present("DoContext", "dcWorkerCalls", "funclit[0]/for[0].body", "err := f(ctx, i)"),
		e("DoContext", "dcWorkerFailed", "funclit[0]/if[2].cond", "Bool", bP, map[string]string{"err!=nil": "failed"}, nil),
		present("DoContext", "dcWorkerReturnsErr", "funclit[0]/if[2].body", "return err"),
		stmtBefore(mod, pkg, "DoContext", "funclit[0]/for[0].body", "dcFetchBeforeCheck", "i := int(atomic.AddInt32(&x, 1))", "return ctx.Err()"),
		stmtBefore(mod, pkg, "DoContext", "funclit[0]/for[0].body", "dcCheckBeforeCall", "return ctx.Err()", "err := f(ctx, i)"),
		pathExists(mod, pkg, "DoContext", "for[1].body/call[eg.Go][0]", "dcSpawnsViaErrgroup"),
		present("DoContext", "dcReturnsWait", "", "return eg.Wait()"),
	)

	// ------------------------------------------------------------------------------------ Map / MapContext
	register(
		present("Map", "mapAllocates", "", "out := make([]U, len(in))"),
		present("Map", "mapWritesPositionally", "funclit[0]", "out[i] = f(in[i])"),
		present("Map", "mapReturnsOut", "", "return out"),
		e("Map", "mapN", "call[Do][0].arg[1]", "Int", pI("lenIn"), map[string]string{"len(in)": "lenIn"}, nil),
		e("Map", "mapParallelism", "call[Do][0].arg[0]", "Int", pI("parallelism"), id("parallelism"), nil),
		present("MapContext", "mcAllocates", "", "out := make([]U, len(in))"),
		present("MapContext", "mcWritesPositionally", "funclit[0]", "out[i], err = f(ctx, in[i])"),
		present("MapContext", "mcCallbackReturnsErr", "funclit[0]", "return err"),
		e("MapContext", "mcN", "call[DoContext][0].arg[2]", "Int", pI("lenIn"), map[string]string{"len(in)": "lenIn"}, nil),
		e("MapContext", "mcParallelism", "call[DoContext][0].arg[1]", "Int", pI("parallelism"), id("parallelism"), nil),
		e("MapContext", "mcFailed", "if[0].cond", "Bool", bP, map[string]string{"err!=nil": "failed"}, nil),
		present("MapContext", "mcReturnsErr", "if[0].body", "return nil, err"),
		present("MapContext", "mcReturnsOut", "", "return out, nil"),
	)

	// ------------------------------------------------------------------------------------ MapIterator
	// funclit[0] is the heap comparison, funclit[1] the dispatcher, funclit[2] the worker
	miVars := map[string]string{"mIter.inFlight": "inFlight", "bufferSize": "bufferSize", "parallelism": "parallelism",
		"atomic.AddUint32(&nDone,1)": "nDoneAfter", "uint32(parallelism)": "parallelism", "i": "i"}
	register(
		e("MapIterator", "miClampLow", "if[0].cond", "Bool", pI("parallelism"), miVars, nil),
		e("MapIterator", "miBufClamp", "if[1].cond", "Bool", pI("bufferSize", "parallelism"), miVars, nil),
		present("MapIterator", "miBufClampAssigns", "if[1].body", "bufferSize = parallelism"),
		parChanCap(mod, pkg, "MapIterator", "assign[in][0]/call[make][0]", "miInCap", pI("bufferSize"), miVars),
		parChanCap(mod, pkg, "MapIterator", "assign[mIter][0]/call[make][0]", "miChCap", pI("bufferSize"), miVars),
		e("MapIterator", "miSrcEnded", "funclit[1]/if[0].cond", "Bool", []Param{{"ok", "Bool"}}, map[string]string{"ok": "ok"}, nil),
		e("MapIterator", "miFull", "funclit[1]/for[1].cond", "Bool", pI("inFlight", "bufferSize"), miVars, nil),
		present("MapIterator", "miWaits", "funclit[1]/for[1].body", "mIter.cond.Wait()"),
		present("MapIterator", "miIncrements", "funclit[1]/for[0].body", "mIter.inFlight++"),
		stmtBefore(mod, pkg, "MapIterator", "funclit[1]/for[0].body", "miIncBeforeSend", "mIter.inFlight++", "in <- valueAndIndex[T]{value: item, idx: i,}"),
		present("MapIterator", "miNumbers", "funclit[1]/for[0].body", "i++"),
		present("MapIterator", "miClosesIn", "funclit[1]", "close(in)"),
		e("MapIterator", "miSpawnLoop", "for[0].cond", "Bool", pI("i", "parallelism"), miVars, nil),
		present("MapIterator", "miWorkerCalls", "funclit[2]/range[0].body", "u := f(item.value)"),
		present("MapIterator", "miWorkerSends", "funclit[2]/range[0].body", "mIter.ch <- valueAndIndex[U]{value: u, idx: item.idx}"),
		e("MapIterator", "miLastWorker", "funclit[2]/if[0].cond", "Bool", pI("nDoneAfter", "parallelism"), miVars, nil),
		present("MapIterator", "miLastCloses", "funclit[2]/if[0].body", "close(mIter.ch)"),
	)
	nxVars := map[string]string{"iter.h.Len()": "hlen", "iter.h.Peek().idx": "hmin", "iter.i": "i",
		"iter.inFlight": "inFlight", "iter.bufferSize": "bufferSize", "ok": "ok"}
	register(
		e("mapIterator.Next", "miNextReady", "if[0].cond", "Bool", pI("hlen", "hmin", "i"), nxVars, nil),
		present("mapIterator.Next", "miNextPops", "if[0].body", "item := iter.h.Pop()"),
		present("mapIterator.Next", "miNextAdvances", "if[0].body", "iter.i++"),
		present("mapIterator.Next", "miNextDecrements", "if[0].body", "iter.inFlight--"),
		e("mapIterator.Next", "miNextSignalCond", "if[1].cond", "Bool", pI("inFlight", "bufferSize"), nxVars, nil),
		present("mapIterator.Next", "miNextSignals", "if[1].body", "iter.cond.Signal()"),
		present("mapIterator.Next", "miNextRecvs", "", "item, ok := <-iter.ch"),
		e("mapIterator.Next", "miNextClosed", "if[2].cond", "Bool", []Param{{"ok", "Bool"}}, nxVars, nil),
		present("mapIterator.Next", "miNextEnds", "if[2].body", "return zero, false"),
		present("mapIterator.Next", "miNextPushes", "", "iter.h.Push(item)"),
	)

	// ------------------------------------------------------------------------------------ MapStream
	msVars := map[string]string{"bufferSize": "bufferSize", "parallelism": "parallelism", "i": "i",
		"atomic.AddUint32(&nDone,1)": "nDoneAfter", "uint32(parallelism)": "parallelism",
		"err==stream.End": "isEnd", "err!=nil": "failed"}
	register(
		e("MapStream", "msClampLow", "if[0].cond", "Bool", pI("parallelism"), msVars, nil),
		e("MapStream", "msBufClamp", "if[1].cond", "Bool", pI("bufferSize", "parallelism"), msVars, nil),
		present("MapStream", "msBufClampAssigns", "if[1].body", "bufferSize = parallelism"),
		parChanCap(mod, pkg, "MapStream", "assign[in][0]/call[make][0]", "msInCap", pI("bufferSize"), msVars),
		parChanCap(mod, pkg, "MapStream", "assign[ready][0]/call[make][0]", "msReadyCap", pI("bufferSize"), msVars),
		parChanCap(mod, pkg, "MapStream", "assign[c][0]/call[make][0]", "msCCap", pI("bufferSize"), msVars),
		e("MapStream", "msTokenLoop", "for[0].cond", "Bool", pI("i", "bufferSize"), msVars, nil),
		present("MapStream", "msTokenLoopSends", "for[0].body", "ready <- struct{}{}"),
		present("MapStream", "msCancelCtx", "", "ctx, cancel := context.WithCancel(ctx)"),
		present("MapStream", "msErrgroup", "", "eg, ctx := errgroup.WithContext(ctx)"),
		stmtBefore(mod, pkg, "MapStream", "", "msCancelOutsideErrgroup", "ctx, cancel := context.WithCancel(ctx)", "eg, ctx := errgroup.WithContext(ctx)"),
		// dispatcher
		present("MapStream", "msDispClosesSource", "funclit[0]", "defer s.Close()"),
		present("MapStream", "msDispClosesIn", "funclit[0]", "defer close(in)"),
		present("MapStream", "msDispPulls", "funclit[0]/for[0].body", "item, err := s.Next(ctx)"),
		e("MapStream", "msDispEnd", "funclit[0]/if[0].cond", "Bool", []Param{{"isEnd", "Bool"}}, msVars, nil),
		present("MapStream", "msDispEndBreaks", "funclit[0]/if[0].body", "break"),
		e("MapStream", "msDispFailed", "funclit[0]/if[1].cond", "Bool", bP, msVars, nil),
		present("MapStream", "msDispReturnsErr", "funclit[0]/if[1].body", "return err"),
		sel("MapStream", "msDispWaitArms", "funclit[0]/select[0]"),
		sel("MapStream", "msDispSendArms", "funclit[0]/select[1]"),
		present("MapStream", "msDispWaitCtxReturns", "funclit[0]/select[0]/case[0].body", "return ctx.Err()"),
		present("MapStream", "msDispSendCtxReturns", "funclit[0]/select[1]/case[0].body", "return ctx.Err()"),
		present("MapStream", "msDispNumbers", "funclit[0]/for[0].body", "i++"),
		present("MapStream", "msDispReturnsNil", "funclit[0]", "return nil"),
		// workers
		e("MapStream", "msSpawnLoop", "for[1].cond", "Bool", pI("i", "parallelism"), msVars, nil),
		e("MapStream", "msLastWorker", "funclit[1]/funclit[0]/if[0].cond", "Bool", pI("nDoneAfter", "parallelism"), msVars, nil),
		present("MapStream", "msLastCloses", "funclit[1]/funclit[0]/if[0].body", "close(c)"),
		present("MapStream", "msWorkerCalls", "funclit[1]/range[0].body", "u, err := f(ctx, item.value)"),
		e("MapStream", "msWorkerFailed", "funclit[1]/range[0].body/if[0].cond", "Bool", bP, msVars, nil),
		present("MapStream", "msWorkerReturnsErr", "funclit[1]/range[0].body/if[0].body", "return err"),
		sel("MapStream", "msWorkerSendArms", "funclit[1]/select[0]"),
		present("MapStream", "msWorkerCtxReturns", "funclit[1]/select[0]/case[1].body", "return ctx.Err()"),
		present("MapStream", "msWorkerReturnsNil", "funclit[1]", "return nil"),
	)
	snVars := map[string]string{"s.h.Len()": "hlen", "s.h.Peek().idx": "hmin", "s.i": "i", "ok": "ok", "err!=nil": "failed"}
	register(
		e("mapStream.Next", "msNextReady", "if[0].cond", "Bool", pI("hlen", "hmin", "i"), snVars, nil),
		present("mapStream.Next", "msNextPops", "if[0].body", "item := s.h.Pop()"),
		present("mapStream.Next", "msNextAdvances", "if[0].body", "s.i++"),
		present("mapStream.Next", "msNextReleases", "if[0].body", "s.ready <- struct{}{}"),
		present("mapStream.Next", "msNextYields", "if[0].body", "return item.value, nil"),
		sel("mapStream.Next", "msNextArms", "select[0]"),
		e("mapStream.Next", "msNextClosed", "if[1].cond", "Bool", []Param{{"ok", "Bool"}}, snVars, nil),
		present("mapStream.Next", "msNextWaits", "if[1].body", "err := s.eg.Wait()"),
		e("mapStream.Next", "msNextFailed", "if[2].cond", "Bool", bP, snVars, nil),
		present("mapStream.Next", "msNextReturnsErr", "if[2].body", "return zero, err"),
		present("mapStream.Next", "msNextReturnsEnd", "if[1].body", "return zero, stream.End"),
		present("mapStream.Next", "msNextPushes", "select[0]/case[0].body", "s.h.Push(item)"),
		present("mapStream.Next", "msNextCtxReturns", "select[0]/case[1].body", "return zero, ctx.Err()"),
		present("mapStream.Close", "msCloseCancels", "", "s.cancel()"),
		present("mapStream.Close", "msCloseWaits", "", "_ = s.eg.Wait()"),
		stmtBefore(mod, pkg, "mapStream.Close", "", "msCloseCancelBeforeWait", "s.cancel()", "_ = s.eg.Wait()"),
	)
}
