package main

// container/tree -> Juniper.Gen.Tree: extractors for
//   * which helper `steal` / `merge` call with which node variables (consumed by `fixChild` of
//     Model/BTree.lean and by `Heap.steal` / `Heap.mergeFrom` of Model/BTreeSlotsOps.lean), and
//   * the receiver kind of every method of a type and whether a constructor returns the address of a
//     composite literal (consumed by Model/TreeHandle.lean: copies of a Map / Set denote the same
//     collection only if every mutating btree method has a pointer receiver).

import (
	"fmt"
	"go/ast"
	"go/token"
	"regexp"
	"sort"
	"strings"
)

const treeCallTypes = `/-- a node variable of ` + "`steal`" + ` / ` + "`merge`" + `: the underfull node and its two siblings -/
inductive NodeArg where
  | x | left | right
  deriving DecidableEq, Repr

/-- the helpers that ` + "`steal`" + ` / ` + "`merge`" + ` call -/
inductive Callee where
  | rotateLeft | rotateRight | mergeTwo
  deriving DecidableEq, Repr
`

var nodeCallRe = regexp.MustCompile(`^t\.(rotateLeft|rotateRight|mergeTwo)\((x|left|right),(x|left|right)\)$`)

// nodeCall: the scope sel of fn is `t.<callee>(a, b)` with a, b among x/left/right, followed by
// exactly the statements `then`. Emits `def name : Option (Callee × NodeArg × NodeArg)`; `none` when
// the scope has any other shape (the models then cannot follow the code and answer `none`).
func nodeCall(fn, sel string, then []string, name string) func(c *Ctx, s *Site) (string, error) {
	return func(c *Ctx, s *Site) (string, error) {
		got, err := simpleStmts(c, fn, sel, s.Pkg)
		if err != nil {
			return "", err
		}
		val := "none"
		if len(got) == 1+len(then) {
			ok := true
			for i, w := range then {
				if got[1+i] != w {
					ok = false
				}
			}
			if m := nodeCallRe.FindStringSubmatch(got[0]); ok && m != nil {
				val = fmt.Sprintf("some (.%s, .%s, .%s)", m[1], m[2], m[3])
			}
		}
		return fmt.Sprintf("/-- `%s` %s = `%s` -/\ndef %s : Option (Callee × NodeArg × NodeArg) := %s\n",
			fn, sel, strings.ReplaceAll(strings.Join(got, "; "), "-/", "- /"), name, val), nil
	}
}

// recvTable emits `def name : List (String × Bool)`: every method of typeName (sorted by name) with
// whether its receiver is a pointer.
func recvTable(typeName, name string) func(c *Ctx, s *Site) (string, error) {
	return func(c *Ctx, s *Site) (string, error) {
		files, err := c.files(s.Pkg)
		if err != nil {
			return "", err
		}
		var rows []string
		for _, f := range files {
			for _, d := range f.Decls {
				fd, ok := d.(*ast.FuncDecl)
				if !ok || recvName(fd) != typeName {
					continue
				}
				_, isPtr := fd.Recv.List[0].Type.(*ast.StarExpr)
				rows = append(rows, fmt.Sprintf("(%s, %v)", leanString(fd.Name.Name), isPtr))
			}
		}
		if len(rows) == 0 {
			return "", fmt.Errorf("type %s has no methods", typeName)
		}
		sort.Strings(rows)
		return fmt.Sprintf("/-- the methods of `%s` and whether the receiver is a pointer (`func (t *%s[…]) M`) -/\ndef %s : List (String × Bool) :=\n  [%s]\n",
			typeName, typeName, name, strings.Join(rows, ", ")), nil
	}
}

// returnsAddrOf emits `def name : Bool`: fn consists of the single statement `return &typeName[…]{…}`.
func returnsAddrOf(fn, typeName, name string) func(c *Ctx, s *Site) (string, error) {
	return func(c *Ctx, s *Site) (string, error) {
		fd, err := c.FindFunc(s.Pkg, fn)
		if err != nil {
			return "", err
		}
		ok := false
		if len(fd.Body.List) == 1 {
			if rs, isRet := fd.Body.List[0].(*ast.ReturnStmt); isRet && len(rs.Results) == 1 {
				if u, isU := rs.Results[0].(*ast.UnaryExpr); isU && u.Op == token.AND {
					if cl, isCl := u.X.(*ast.CompositeLit); isCl {
						t := cl.Type
						for {
							switch x := t.(type) {
							case *ast.IndexExpr:
								t = x.X
								continue
							case *ast.IndexListExpr:
								t = x.X
								continue
							}
							break
						}
						if id, isId := t.(*ast.Ident); isId && id.Name == typeName {
							ok = true
						}
					}
				}
			}
		}
		return fmt.Sprintf("/-- `%s` is `return &%s[…]{…}`: every call allocates one shared object and hands out its address -/\ndef %s : Bool := %v\n",
			fn, typeName, name, ok), nil
	}
}

// bodyTable emits `def name : List (String × String)`: for every listed method (or function) its
// body, statements printed without whitespace and joined by ";".
func bodyTable(recv string, methods []string, name string) func(c *Ctx, s *Site) (string, error) {
	return func(c *Ctx, s *Site) (string, error) {
		var rows []string
		for _, m := range methods {
			fn := m
			if recv != "" {
				fn = recv + "." + m
			}
			got, err := simpleStmts(c, fn, "", s.Pkg)
			if err != nil {
				return "", err
			}
			rows = append(rows, fmt.Sprintf("(%s, %s)", leanString(m), leanString(strings.Join(got, ";"))))
		}
		return fmt.Sprintf("/-- the bodies of the methods of `%s` (whitespace removed): what each forwards to -/\ndef %s : List (String × String) :=\n  [%s]\n",
			recv, name, strings.Join(rows, ",\n   ")), nil
	}
}

// headerWriters emits `def name : List (String × Bool)`: every method of typeName (sorted) with whether
// its body assigns to / increments / decrements a field of the receiver itself (`t.root = …`,
// `t.size++`): with a value receiver such a write would be lost in the copy.
func headerWriters(typeName, name string) func(c *Ctx, s *Site) (string, error) {
	return func(c *Ctx, s *Site) (string, error) {
		files, err := c.files(s.Pkg)
		if err != nil {
			return "", err
		}
		var rows []string
		for _, f := range files {
			for _, d := range f.Decls {
				fd, ok := d.(*ast.FuncDecl)
				if !ok || recvName(fd) != typeName || fd.Body == nil {
					continue
				}
				recv := ""
				if len(fd.Recv.List[0].Names) == 1 {
					recv = fd.Recv.List[0].Names[0].Name
				}
				isRecvField := func(x ast.Expr) bool {
					se, ok := x.(*ast.SelectorExpr)
					if !ok {
						return false
					}
					id, ok := se.X.(*ast.Ident)
					return ok && recv != "" && id.Name == recv
				}
				writes := false
				ast.Inspect(fd.Body, func(n ast.Node) bool {
					switch x := n.(type) {
					case *ast.AssignStmt:
						for _, l := range x.Lhs {
							if isRecvField(l) {
								writes = true
							}
						}
					case *ast.IncDecStmt:
						if isRecvField(x.X) {
							writes = true
						}
					case *ast.UnaryExpr:
						if x.Op == token.AND && isRecvField(x.X) {
							writes = true // address of a header field escapes
						}
					}
					return true
				})
				rows = append(rows, fmt.Sprintf("(%s, %v)", leanString(fd.Name.Name), writes))
			}
		}
		if len(rows) == 0 {
			return "", fmt.Errorf("type %s has no methods", typeName)
		}
		sort.Strings(rows)
		return fmt.Sprintf("/-- the methods of `%s` and whether the body writes a field of the receiver itself (`t.root = …`, `t.size++`, `t.gen++`) -/\ndef %s : List (String × Bool) :=\n  [%s]\n",
			typeName, name, strings.Join(rows, ", ")), nil
	}
}
