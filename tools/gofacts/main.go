package main

import (
	"encoding/json"
	"flag"
	"fmt"
	"os"
)

func main() {
	repo := flag.String("repo", "/repo", "repository root")
	out := flag.String("out", "", "output directory for Generated/*.lean")
	js := flag.String("json", "", "report file")
	flag.Parse()
	if *out == "" {
		fmt.Fprintln(os.Stderr, "gofacts: -out required")
		os.Exit(2)
	}
	rep, err := generate(*repo, *out)
	if err != nil {
		fmt.Fprintln(os.Stderr, "gofacts:", err)
		os.Exit(2)
	}
	b, _ := json.MarshalIndent(rep, "", " ")
	if *js != "" {
		os.WriteFile(*js, b, 0o644)
	} else {
		os.Stdout.Write(b)
	}
	for m, r := range rep {
		for _, e := range r.Errors {
			fmt.Fprintf(os.Stderr, "gofacts: %s: %s\n", m, e)
		}
	}
}
