package main

// stream.Batch / BatchFunc / batchStream -> Juniper.Gen.Batch. Consumed by Model/Batch.lean (C11 and
// the Batch clauses of C08/C09).
//
// Structural addresses inside BatchFunc: funclit[0] = producer goroutine, funclit[1] = batcher
// goroutine; inside the batcher funclit[0] = deferred cleanup, funclit[1] = flush,
// funclit[2] = stopTimer, funclit[3] = startTimer; the loop is for[0]/select[0]; its arms are
// addressed by channel (comm[c], comm[timerC], comm[out.waiting]), not by position.

import (
	"fmt"
	"go/ast"
	"strings"
)

func init() {
	const pkg = "stream"
	const mod = "Batch"
	const bf = "BatchFunc"
	const loop = "funclit[1]/for[0]/select[0]"
	sel := func(name, fn, path string) Site {
		return Site{Module: mod, Pkg: pkg, Func: fn, Name: name, Kind: Select, Sel: path}
	}
	present := func(name, fn, path, text string) Site {
		return Site{Module: mod, Pkg: pkg, Func: fn, Name: name, Kind: Present, Sel: path, Text: text}
	}
	stmts := func(name, fn, path string) Site {
		return Site{Module: mod, Pkg: pkg, Func: fn, Name: name, Kind: StmtList, Sel: path}
	}
	expr := func(name, fn, path, typ string, ps []Param, vars map[string]string) Site {
		return Site{Module: mod, Pkg: pkg, Func: fn, Name: name, Kind: Expr, Sel: path, Type: typ, Params: ps, Vars: vars}
	}
	lenV := map[string]string{"len(batch)": "len", "batchSize": "batchSize"}
	timeV := map[string]string{"time.Since(batchStart)": "since", "maxWait": "maxWait"}
	register(
		// ---- select arm tables
		sel("loopArms", bf, loop),
		sel("flushArms", bf, "funclit[1]/funclit[1]/select[0]"),
		sel("nextOuterArms", "batchStream.Next", "select[0]"),
		sel("nextInnerArms", "batchStream.Next", "select[0]/comm[iter.waiting].body/select[0]"),
		// the producer's hand-off of an item to the batcher: a bare `c <- item` (arm table with the
		// single send arm) or a select around it
		Site{Module: mod, Pkg: pkg, Func: bf, Name: "producerSendArms", Kind: Custom, Custom: producerSendArms},
		// ---- producer
		Site{Module: mod, Pkg: pkg, Func: bf, Name: "producerDefers", Kind: Custom, Custom: producerDefers},
		present("producerRecordsErr", bf, "funclit[0]", "out.err = err"),
		expr("wgCount", bf, "call[out.wg.Add][0].arg[0]", "Int", nil, nil),
		Site{Module: mod, Pkg: pkg, Func: bf, Name: "unbufferedChans", Kind: Custom, Custom: unbufferedChans},
		// ---- batcher: the `<-c` arm
		expr("endFlushCond", bf, loop+"/comm[c].body/if[0].body/if[0].cond", "Bool", []Param{{"len", "Int"}}, lenV),
		stmts("fullStmts", bf, loop+"/comm[c].body/if[2].body"),
		expr("firstItemCond", bf, loop+"/comm[c].body/if[4].cond", "Bool", []Param{{"len", "Int"}}, lenV),
		stmts("firstItemStmts", bf, loop+"/comm[c].body/if[4].body"),
		// ---- the `<-timerC` arm
		stmts("timerArmStmts", bf, loop+"/comm[timerC].body"),
		// ---- the `<-out.waiting` arm
		expr("waitNonEmptyCond", bf, loop+"/comm[out.waiting].body/if[0].cond", "Bool", []Param{{"len", "Int"}}, lenV),
		expr("waitElapsed", bf, loop+"/comm[out.waiting].body/if[0].body/if[0].cond", "Bool", []Param{{"since", "Int"}, {"maxWait", "Int"}}, timeV),
		stmts("waitElapsedStmts", bf, loop+"/comm[out.waiting].body/if[0].body/if[0].body"),
		stmts("waitNotElapsedStmts", bf, loop+"/comm[out.waiting].body/if[0].body/if[0].else"),
		stmts("waitEmptyStmts", bf, loop+"/comm[out.waiting].body/if[0].else"),
		// ---- flush / stopTimer / startTimer / cleanup
		present("flushClearsWaitingAtEmpty", bf, "funclit[1]/funclit[1]", "waitingAtEmpty = false"),
		present("stopTimerClearsTimerC", bf, "funclit[1]/funclit[2]", "timerC = nil"),
		present("startTimerStopsFirst", bf, "funclit[1]/funclit[3]", "stopTimer()"),
		present("startTimerSetsTimerC", bf, "funclit[1]/funclit[3]", "timerC = timer.C"),
		expr("timerDur", bf, "funclit[1]/funclit[3]/call[time.NewTimer][0].arg[0]", "Int", []Param{{"since", "Int"}, {"maxWait", "Int"}}, timeV),
		expr("timerResetDur", bf, "funclit[1]/funclit[3]/call[timer.Reset][0].arg[0]", "Int", []Param{{"since", "Int"}, {"maxWait", "Int"}}, timeV),
		present("batcherClosesBatchC", bf, "funclit[1]/funclit[0]", "close(out.batchC)"),
		// ---- Batch's `full`
		expr("batchFull", "Batch", "funclit[0]/return[0].result[0]", "Bool", []Param{{"len", "Int"}, {"batchSize", "Int"}}, lenV),
		// ---- Close
		stmts("closeStmts", "batchStream.Close", ""),
	)
}

// producerFuncLit returns the body of the first goroutine started by BatchFunc.
func producerFuncLit(c *Ctx) (*ast.FuncLit, error) {
	fd, err := c.FindFunc("stream", "BatchFunc")
	if err != nil {
		return nil, err
	}
	n, err := c.SelectPath(fd, "funclit[0]")
	if err != nil {
		return nil, err
	}
	fl, ok := n.(*ast.FuncLit)
	if !ok {
		return nil, fmt.Errorf("funclit[0] is not a function literal")
	}
	return fl, nil
}

func producerSendArms(c *Ctx, s *Site) (string, error) {
	fl, err := producerFuncLit(c)
	if err != nil {
		return "", err
	}
	var bare []*ast.SendStmt
	var sels []*ast.SelectStmt
	inSelect := map[*ast.SendStmt]bool{}
	ast.Inspect(fl.Body, func(n ast.Node) bool {
		switch x := n.(type) {
		case *ast.SelectStmt:
			has := false
			for _, cl := range x.Body.List {
				if st, ok := cl.(*ast.CommClause).Comm.(*ast.SendStmt); ok && c.Text(st.Chan) == "c" {
					has = true
					inSelect[st] = true
				}
			}
			if has {
				sels = append(sels, x)
			}
		case *ast.SendStmt:
			if c.Text(x.Chan) == "c" && !inSelect[x] {
				bare = append(bare, x)
			}
		}
		return true
	})
	if len(bare)+len(sels) != 1 {
		return "", fmt.Errorf("expected exactly one hand-off on c in the producer, found %d bare sends and %d selects", len(bare), len(sels))
	}
	arms := `[.send "c"]`
	if len(sels) == 1 {
		a, err := c.selectArms(sels[0])
		if err != nil {
			return "", err
		}
		arms = a
	}
	return fmt.Sprintf("/-- the producer's hand-off `c <- item` in `BatchFunc` (bare send or the select around it) -/\ndef %s : List Arm := %s\n", s.Name, arms), nil
}

func producerDefers(c *Ctx, s *Site) (string, error) {
	fl, err := producerFuncLit(c)
	if err != nil {
		return "", err
	}
	var out []string
	for _, st := range fl.Body.List {
		if d, ok := st.(*ast.DeferStmt); ok {
			out = append(out, leanString(c.Text(d.Call)))
		}
	}
	return fmt.Sprintf("/-- deferred calls of the producer goroutine of `BatchFunc`, in source order (they run in reverse) -/\ndef %s : List String := [%s]\n", s.Name, strings.Join(out, ", ")), nil
}

// unbufferedChans counts the `make(chan …)` calls of BatchFunc without a capacity argument
// (c, batchC, waiting are rendez-vous channels in the model).
func unbufferedChans(c *Ctx, s *Site) (string, error) {
	fd, err := c.FindFunc("stream", "BatchFunc")
	if err != nil {
		return "", err
	}
	n, total := 0, 0
	ast.Inspect(fd.Body, func(x ast.Node) bool {
		if call, ok := x.(*ast.CallExpr); ok {
			if id, ok := call.Fun.(*ast.Ident); ok && id.Name == "make" && len(call.Args) >= 1 {
				if _, isChan := call.Args[0].(*ast.ChanType); isChan {
					total++
					if len(call.Args) == 1 {
						n++
					}
				}
			}
		}
		return true
	})
	return fmt.Sprintf("/-- `make(chan …)` calls in `BatchFunc`: all / without capacity -/\ndef chanMakes : Nat := %d\ndef %s : Nat := %d\n", total, s.Name, n), nil
}
