package main

// iterator, stream, xslices (combinators) and xrand.rSampleStream -> Juniper.Gen.Comb.
// Consumed by Model/Iter.lean, Model/Stream.lean, Model/XSlices.lean (C07, C08, C09).

import (
	"fmt"
	"go/ast"
	"go/token"
	"sort"
	"strings"
)

// ---------------------------------------------------------------------------------------------
// Control skeletons (tie 1 for the hand-written state machines of Model/Iter.lean, Model/Stream.lean).
//
// combSkeleton renders the body of a method as the nested sequence of its statement kinds, all
// identifiers, operators and literals normalised away:
//   asg (assignment / short declaration)   var (declaration)   call (expression statement)
//   inc dec   ret   brk cont goto fall   defer go send   if{..}else{..}   for{..}   range{..}
//   switch{case{..}..}   select{case{..}..}   {..} (block)
// A statement that calls a method named Next / Peek / Close is tagged <Next> / <Peek> / <Close> (one
// tag per call, in source order); a call through a field of the receiver (a user callback such as
// s.keep(..), iter.f(..)) is tagged <cb>. So an added early return, a dropped branch, an extra pull
// from the source, an extra or missing callback call or Close, a goroutine or a channel operation all
// change the string.

func combSkelTags(recv string, nodes ...ast.Node) string {
	var b strings.Builder
	for _, n := range nodes {
		if n == nil {
			continue
		}
		ast.Inspect(n, func(x ast.Node) bool {
			if _, ok := x.(*ast.FuncLit); ok {
				b.WriteString("<func>")
				return false
			}
			ce, ok := x.(*ast.CallExpr)
			if !ok {
				return true
			}
			if se, ok := ce.Fun.(*ast.SelectorExpr); ok {
				switch se.Sel.Name {
				case "Next", "Peek", "Close":
					b.WriteString("<" + se.Sel.Name + ">")
				default:
					// a call through a field of the receiver, directly (iter.keep(..)) or through a chain of
					// its fields (iter.parent.same(..)): a user callback
					root := se.X
					for {
						if inner, ok := root.(*ast.SelectorExpr); ok {
							root = inner.X
							continue
						}
						break
					}
					if id, ok := root.(*ast.Ident); ok && recv != "" && id.Name == recv {
						b.WriteString("<cb>")
					}
				}
			} else if id, ok := ce.Fun.(*ast.Ident); ok && !combBuiltin[id.Name] {
				b.WriteString("<fn>")
			}
			return true
		})
	}
	return b.String()
}

var combBuiltin = map[string]bool{"append": true, "len": true, "cap": true, "make": true, "copy": true, "new": true,
	"panic": true, "delete": true, "min": true, "max": true, "clear": true}

// methods whose skeleton is extracted: (package, function)
var combSkelFuncs [][2]string

// combConcurrencyOps counts go statements, channel sends/receives and select statements in all the
// methods whose skeleton is extracted (C09 "never concurrent": the caller's-goroutine combinators
// start no goroutine and touch no channel, so every call they make on their source happens inside,
// and is finished before the end of, the consumer's own call).
func combConcurrencyOps(c *Ctx, s *Site) (string, error) {
	n := 0
	for _, pf := range combSkelFuncs {
		fd, err := c.FindFunc(pf[0], pf[1])
		if err != nil {
			return "", err
		}
		ast.Inspect(fd.Body, func(x ast.Node) bool {
			switch y := x.(type) {
			case *ast.GoStmt, *ast.SendStmt, *ast.SelectStmt:
				n++
			case *ast.UnaryExpr:
				if y.Op == token.ARROW {
					n++
				}
			}
			return true
		})
	}
	return fmt.Sprintf("/-- go statements, channel operations and selects in the %d combinator methods / reducers -/\ndef %s : Nat := %d\n", len(combSkelFuncs), s.Name, n), nil
}

func combSkelStmts(recv string, list []ast.Stmt) string {
	parts := make([]string, 0, len(list))
	for _, st := range list {
		parts = append(parts, combSkelStmt(recv, st))
	}
	return strings.Join(parts, ";")
}

func combSkelStmt(recv string, st ast.Stmt) string {
	switch x := st.(type) {
	case *ast.AssignStmt:
		var ns []ast.Node
		for _, e := range x.Rhs {
			ns = append(ns, e)
		}
		for _, e := range x.Lhs {
			ns = append(ns, e)
		}
		return "asg" + combSkelTags(recv, ns...)
	case *ast.DeclStmt:
		return "var" + combSkelTags(recv, x.Decl)
	case *ast.ExprStmt:
		return "call" + combSkelTags(recv, x.X)
	case *ast.IncDecStmt:
		if x.Tok == token.INC {
			return "inc"
		}
		return "dec"
	case *ast.ReturnStmt:
		var ns []ast.Node
		for _, e := range x.Results {
			ns = append(ns, e)
		}
		return "ret" + combSkelTags(recv, ns...)
	case *ast.BranchStmt:
		switch x.Tok {
		case token.BREAK:
			return "brk"
		case token.CONTINUE:
			return "cont"
		case token.GOTO:
			return "goto"
		}
		return "fall"
	case *ast.BlockStmt:
		return "{" + combSkelStmts(recv, x.List) + "}"
	case *ast.IfStmt:
		s := "if"
		if x.Init != nil {
			s += "(" + combSkelStmt(recv, x.Init) + ")"
		}
		s += combSkelTags(recv, x.Cond) + "{" + combSkelStmts(recv, x.Body.List) + "}"
		if x.Else != nil {
			if b, ok := x.Else.(*ast.BlockStmt); ok {
				s += "else{" + combSkelStmts(recv, b.List) + "}"
			} else {
				s += "else " + combSkelStmt(recv, x.Else)
			}
		}
		return s
	case *ast.ForStmt:
		s := "for"
		if x.Init != nil {
			s += "(" + combSkelStmt(recv, x.Init) + ")"
		}
		if x.Cond != nil {
			s += "?" + combSkelTags(recv, x.Cond)
		}
		if x.Post != nil {
			s += "(" + combSkelStmt(recv, x.Post) + ")"
		}
		return s + "{" + combSkelStmts(recv, x.Body.List) + "}"
	case *ast.RangeStmt:
		return "range" + combSkelTags(recv, x.X) + "{" + combSkelStmts(recv, x.Body.List) + "}"
	case *ast.SwitchStmt, *ast.TypeSwitchStmt, *ast.SelectStmt:
		kind := "switch"
		var body *ast.BlockStmt
		switch y := x.(type) {
		case *ast.SwitchStmt:
			body = y.Body
		case *ast.TypeSwitchStmt:
			body = y.Body
		case *ast.SelectStmt:
			kind, body = "select", y.Body
		}
		var cs []string
		for _, c := range body.List {
			switch cc := c.(type) {
			case *ast.CaseClause:
				cs = append(cs, "case{"+combSkelStmts(recv, cc.Body)+"}")
			case *ast.CommClause:
				cs = append(cs, "case{"+combSkelStmts(recv, cc.Body)+"}")
			}
		}
		return kind + "{" + strings.Join(cs, ";") + "}"
	case *ast.DeferStmt:
		return "defer" + combSkelTags(recv, x.Call)
	case *ast.GoStmt:
		return "go" + combSkelTags(recv, x.Call)
	case *ast.SendStmt:
		return "send"
	case *ast.LabeledStmt:
		return "label:" + combSkelStmt(recv, x.Stmt)
	case *ast.EmptyStmt:
		return "empty"
	}
	return fmt.Sprintf("?%T", st)
}

// combSkeleton is the Custom callback: `def <Name> : String := "<skeleton of Func>"`.
func combSkeleton(c *Ctx, s *Site) (string, error) {
	fd, err := c.FindFunc(s.Pkg, s.Func)
	if err != nil {
		return "", err
	}
	if fd.Body == nil {
		return "", fmt.Errorf("%s has no body", s.Func)
	}
	recv := ""
	if fd.Recv != nil && len(fd.Recv.List) > 0 && len(fd.Recv.List[0].Names) > 0 {
		recv = fd.Recv.List[0].Names[0].Name
	}
	sk := combSkelStmts(recv, fd.Body.List)
	return fmt.Sprintf("/-- control skeleton of `%s.%s` -/\ndef %s : String := %s\n", s.Pkg, s.Func, s.Name, leanString(sk)), nil
}

// combSliceBound extracts the low/high bound of the k-th slice expression x[lo:hi] in a function.
func combSliceBound(x string, k int, which string) func(c *Ctx, s *Site) (string, error) {
	return func(c *Ctx, s *Site) (string, error) {
		fd, err := c.FindFunc(s.Pkg, s.Func)
		if err != nil {
			return "", err
		}
		var hits []*ast.SliceExpr
		ast.Inspect(fd.Body, func(n ast.Node) bool {
			if se, ok := n.(*ast.SliceExpr); ok && c.Text(se.X) == x {
				hits = append(hits, se)
			}
			return true
		})
		if k >= len(hits) {
			return "", fmt.Errorf("only %d slice expression(s) of %s, wanted #%d", len(hits), x, k)
		}
		var e ast.Expr
		if which == "lo" {
			e = hits[k].Low
		} else {
			e = hits[k].High
		}
		if e == nil {
			return "", fmt.Errorf("slice expression %s has no %s bound", c.Pretty(hits[k]), which)
		}
		env := &trEnv{c: c, s: s, locals: map[string]string{}, consts: map[string]string{}}
		t, _, err := env.tr(e)
		if err != nil {
			return "", err
		}
		return fmt.Sprintf("/-- %s bound of `%s` in `%s` -/\ndef %s%s : Int := %s\n", which, c.Pretty(hits[k]), s.Func, s.Name, paramsText(s.Params), t), nil
	}
}


// combCtorField extracts the value given to one field in the composite literal a constructor
// returns (`return &counterIterator{i: 0, n: n}`): `def <Name> (params) : <Type> := <value>`.
func combCtorField(field string) func(c *Ctx, s *Site) (string, error) {
	return func(c *Ctx, s *Site) (string, error) {
		fd, err := c.FindFunc(s.Pkg, s.Func)
		if err != nil {
			return "", err
		}
		var lit *ast.CompositeLit
		n := 0
		ast.Inspect(fd.Body, func(x ast.Node) bool {
			if r, ok := x.(*ast.ReturnStmt); ok {
				n++
				if len(r.Results) == 1 {
					e := r.Results[0]
					if u, ok := e.(*ast.UnaryExpr); ok && u.Op == token.AND {
						e = u.X
					}
					if cl, ok := e.(*ast.CompositeLit); ok {
						lit = cl
					}
				}
			}
			return true
		})
		if n != 1 || lit == nil {
			return "", fmt.Errorf("%s is not `return &T{...}` (%d return statements)", s.Func, n)
		}
		for _, el := range lit.Elts {
			kv, ok := el.(*ast.KeyValueExpr)
			if !ok {
				return "", fmt.Errorf("%s: positional composite literal", s.Func)
			}
			if id, ok := kv.Key.(*ast.Ident); ok && id.Name == field {
				env := &trEnv{c: c, s: s, locals: map[string]string{}, consts: map[string]string{}}
				t, ty, err := env.tr(kv.Value)
				if err != nil {
					return "", err
				}
				typ := s.Type
				if typ == "" {
					typ = "Int"
				}
				if (ty == "Bool") != (typ == "Bool") {
					return "", fmt.Errorf("%s.%s: expected %s, value %s is %s", s.Func, field, typ, c.Pretty(kv.Value), ty)
				}
				return fmt.Sprintf("/-- field `%s: %s` of the value `%s` returns -/\ndef %s%s : %s := %s\n", field, c.Pretty(kv.Value), s.Func, s.Name, paramsText(s.Params), typ, t), nil
			}
		}
		return "", fmt.Errorf("%s: the returned literal does not set field %s", s.Func, field)
	}
}

// combExportedFuncs lists the exported top-level functions of a package, sorted: the API the c07
// harness has to drive (`api:<pkg>.<name>` counters) and the models have to cover.
func combExportedFuncs(c *Ctx, s *Site) (string, error) {
	files, err := c.files(s.Pkg)
	if err != nil {
		return "", err
	}
	var names []string
	for _, f := range files {
		for _, d := range f.Decls {
			if fd, ok := d.(*ast.FuncDecl); ok && fd.Recv == nil && fd.Name.IsExported() {
				names = append(names, fd.Name.Name)
			}
		}
	}
	sort.Strings(names)
	q := make([]string, len(names))
	for i, n := range names {
		q[i] = leanString(n)
	}
	return fmt.Sprintf("/-- exported functions of package `%s` -/\ndef %s : List String := [%s]\n", s.Pkg, s.Name, strings.Join(q, ", ")), nil
}

// combRangeX / combText: the printed text of a selected node (range operand, if condition, ...), for
// the few places where the model needs the *shape* of an expression over pointers / slices of streams
// that the integer/Boolean translator cannot express.
func combText(what string) func(c *Ctx, s *Site) (string, error) {
	return func(c *Ctx, s *Site) (string, error) {
		fd, err := c.FindFunc(s.Pkg, s.Func)
		if err != nil {
			return "", err
		}
		n, err := c.SelectPath(fd, s.Sel)
		if err != nil {
			return "", err
		}
		return fmt.Sprintf("/-- %s of `%s` (%s) -/\ndef %s : String := %s\n", what, s.Func, s.Sel, s.Name, leanString(c.Pretty(n))), nil
	}
}

// combDeferFirst: the *first* statement of the function is `defer <call>` - so the deferred call runs on
// every path out of the function, whatever is added later (a presence fact would still be true after
// an early return was inserted in front of the defer).
func combDeferFirst(call string) func(c *Ctx, s *Site) (string, error) {
	return func(c *Ctx, s *Site) (string, error) {
		fd, err := c.FindFunc(s.Pkg, s.Func)
		if err != nil {
			return "", err
		}
		ok := false
		if len(fd.Body.List) > 0 {
			if d, isDefer := fd.Body.List[0].(*ast.DeferStmt); isDefer && c.Text(d.Call) == stripSpace(call) {
				ok = true
			}
		}
		return fmt.Sprintf("/-- the first statement of `%s` is `defer %s` -/\ndef %s : Bool := %v\n", s.Func, call, s.Name, ok), nil
	}
}

// skeleton of a method that is outside the "no goroutine, no channel" count (Chan)
func combSkeletonSite(mod, pkg, fn, name string) Site {
	return Site{Module: mod, Pkg: pkg, Func: fn, Name: name, Kind: Custom, Custom: combSkeleton}
}

// combExprSite translates a selected Boolean / value expression that mentions user callbacks or values of
// the (generic) element type into a polymorphic Lean definition: `sig` is the Lean binder list and result
// type, `vars` maps Go expression text to Lean terms, `callees` maps callee text to the Lean parameter
// that stands for it. Accepted: mapped expressions, `!`, `&&`, `||`, `==`, `!=`, `<`, `>`, `<=`, `>=`,
// integer literals, calls of mapped callees.
func combExprSite(mod, pkg, fn, name, sel, sig string, vars, callees map[string]string) Site {
	return Site{Module: mod, Pkg: pkg, Func: fn, Name: name, Kind: Custom, Sel: sel,
		Custom: func(c *Ctx, s *Site) (string, error) {
			fd, err := c.FindFunc(pkg, fn)
			if err != nil {
				return "", err
			}
			n, err := c.SelectPath(fd, sel)
			if err != nil {
				return "", err
			}
			x, ok := n.(ast.Expr)
			if !ok {
				return "", fmt.Errorf("selector %q is not an expression", sel)
			}
			var tr func(e ast.Expr) (string, error)
			tr = func(e ast.Expr) (string, error) {
				txt := c.Text(e)
				if v, ok := vars[txt]; ok {
					return v, nil
				}
				switch n := e.(type) {
				case *ast.ParenExpr:
					return tr(n.X)
				case *ast.BasicLit:
					if n.Kind == token.INT {
						return "(" + n.Value + " : Int)", nil
					}
				case *ast.Ident:
					if n.Name == "true" || n.Name == "false" {
						return n.Name, nil
					}
					return "", fmt.Errorf("unmapped identifier %q", n.Name)
				case *ast.UnaryExpr:
					a, err := tr(n.X)
					if err != nil {
						return "", err
					}
					if n.Op == token.NOT {
						return "(!" + a + ")", nil
					}
				case *ast.BinaryExpr:
					a, err := tr(n.X)
					if err != nil {
						return "", err
					}
					b, err := tr(n.Y)
					if err != nil {
						return "", err
					}
					switch n.Op {
					case token.LAND:
						return "(" + a + " && " + b + ")", nil
					case token.LOR:
						return "(" + a + " || " + b + ")", nil
					case token.EQL:
						return "(" + a + " == " + b + ")", nil
					case token.NEQ:
						return "(" + a + " != " + b + ")", nil
					case token.LSS:
						return "(decide (" + a + " < " + b + "))", nil
					case token.GTR:
						return "(decide (" + a + " > " + b + "))", nil
					case token.LEQ:
						return "(decide (" + a + " ≤ " + b + "))", nil
					case token.GEQ:
						return "(decide (" + a + " ≥ " + b + "))", nil
					case token.ADD, token.SUB:
						return "(" + a + " " + n.Op.String() + " " + b + ")", nil
					}
				case *ast.CallExpr:
					lean, ok := callees[c.Text(n.Fun)]
					if !ok {
						return "", fmt.Errorf("unexpected callee %s", c.Text(n.Fun))
					}
					out := "(" + lean
					for _, a := range n.Args {
						t, err := tr(a)
						if err != nil {
							return "", err
						}
						out += " " + t
					}
					return out + ")", nil
				}
				return "", fmt.Errorf("unsupported expression %s", txt)
			}
			t, err := tr(x)
			if err != nil {
				return "", err
			}
			return fmt.Sprintf("/-- `%s` in `%s` (%s) -/\ndef %s %s := %s\n", c.Pretty(x), fn, sel, name, sig, t), nil
		}}
}

func init() {
	const mod = "Comb"
	I := func(names ...string) []Param {
		var ps []Param
		for _, n := range names {
			ps = append(ps, Param{n, "Int"})
		}
		return ps
	}
	ex := func(pkg, fn, name, sel, typ string, ps []Param, vars map[string]string) Site {
		return Site{Module: mod, Pkg: pkg, Func: fn, Name: name, Kind: Expr, Sel: sel, Type: typ, Params: ps, Vars: vars}
	}
	pres := func(pkg, fn, name, sel, text string) Site {
		return Site{Module: mod, Pkg: pkg, Func: fn, Name: name, Kind: Present, Sel: sel, Text: text}
	}
	cnt := func(pkg, fn, name, sel, text string) Site {
		return Site{Module: mod, Pkg: pkg, Func: fn, Name: name, Kind: Count, Sel: sel, Text: text}
	}
	const it = "iterator"
	const st = "stream"
	const xs = "xslices"
	skel := func(pkg, fn, name string) Site {
		combSkelFuncs = append(combSkelFuncs, [2]string{pkg, fn})
		return Site{Module: mod, Pkg: pkg, Func: fn, Name: name, Kind: Custom, Custom: combSkeleton}
	}
	lastVars := map[string]string{"i": "i", "n": "n", "idx": "idx"}
	deferFirst := func(pkg, fn, name string) Site {
		return Site{Module: mod, Pkg: pkg, Func: fn, Name: name, Kind: Custom, Custom: combDeferFirst("s.Close()")}
	}
	ctor := func(pkg, fn, name, field, typ string, ps []Param, vars map[string]string) Site {
		return Site{Module: mod, Pkg: pkg, Func: fn, Name: name, Kind: Custom, Type: typ, Params: ps, Vars: vars, Custom: combCtorField(field)}
	}
	text := func(pkg, fn, name, sel, what string) Site {
		return Site{Module: mod, Pkg: pkg, Func: fn, Name: name, Kind: Custom, Sel: sel, Custom: combText(what)}
	}
	// Go `error` values as the methods test and return them: nil = 0, End = 1, the error held in `err`
	// (or returned by ctx.Err() / stored in s.err) = the parameter e, ErrEmpty = 3, ErrMoreThanOne = 4
	errVars := map[string]string{"err": "e", "nil": "(0 : Int)", "End": "(1 : Int)", "stream.End": "(1 : Int)",
		"ErrEmpty": "(3 : Int)", "ErrMoreThanOne": "(4 : Int)", "ctx.Err()": "e", "s.err": "e"}
	eg := func(fn, name, sel string) Site { // error guard: Bool function of the error code
		return ex(st, fn, name, sel, "Bool", I("e"), errVars)
	}
	er := func(fn, name string, k int) Site { // error operand of the k-th return statement
		return ex(st, fn, name, fmt.Sprintf("return[%d].result[1]", k), "Int", I("e"), errVars)
	}
	okVars := map[string]string{"ok": "ok"}
	B := func(names ...string) []Param {
		var ps []Param
		for _, n := range names {
			ps = append(ps, Param{n, "Bool"})
		}
		return ps
	}

	register(
		// ---------------------------------------------------------------- iterator sources
		ex(it, "counterIterator.Next", "itCounterDone", "if[0].cond", "Bool", I("i", "n"), map[string]string{"iter.i": "i", "iter.n": "n"}),
		pres(it, "counterIterator.Next", "itCounterAdvances", "", "iter.i++"),
		ex(it, "repeatIterator.Next", "itRepeatDone", "if[0].cond", "Bool", I("x"), map[string]string{"iter.x": "x"}),
		pres(it, "repeatIterator.Next", "itRepeatDecrements", "", "iter.x--"),
		ex(it, "sliceIterator.Next", "itSliceDone", "if[0].cond", "Bool", I("len"), map[string]string{"len(iter.a)": "len"}),
		// peekable
		ex(it, "peekable.Next", "itPeekNextHas", "if[0].cond", "Bool", []Param{{"has", "Bool"}}, map[string]string{"iter.has": "has"}),
		pres(it, "peekable.Next", "itPeekNextClearsHas", "if[0].body", "iter.has = false"),
		ex(it, "peekable.Peek", "itPeekPulls", "if[0].cond", "Bool", []Param{{"has", "Bool"}}, map[string]string{"iter.has": "has"}),
		// Last
		ex(it, "Last", "itLastStoreGuard", "for[0].body/if[1].cond", "Bool", I("n"), lastVars),
		ex(it, "Last", "itLastSlot", "for[0].body/index[buf][0].idx", "Int", I("i", "n"), lastVars),
		pres(it, "Last", "itLastCounts", "for[0].body", "i++"),
		ex(it, "Last", "itLastShort", "if[2].cond", "Bool", I("i", "n"), lastVars),
		ex(it, "Last", "itLastRotGuard", "if[3].cond", "Bool", I("n"), lastVars),
		ex(it, "Last", "itLastIdx", "assign[idx][0].rhs", "Int", I("i", "n"), lastVars),
		Site{Module: mod, Pkg: it, Func: "Last", Name: "itLastSplit", Kind: Custom, Params: I("n", "idx"), Vars: lastVars, Custom: combSliceBound("out", 0, "lo")},
		// combinators
		ex(it, "chunkIterator.Next", "itChunkFull", "if[1].cond", "Bool", I("len", "size"), map[string]string{"len(chunk)": "len", "iter.chunkSize": "size"}),
		ex(it, "chunkIterator.Next", "itChunkFlush", "if[2].cond", "Bool", I("len"), map[string]string{"len(chunk)": "len"}),
		pres(it, "compactIterator.Next", "itCompactClearsFirst", "", "iter.first = false"),
		cnt(it, "compactIterator.Next", "itCompactSetsPrev", "", "iter.prev = item"),
		ex(it, "firstIterator.Next", "itFirstDone", "if[0].cond", "Bool", I("x"), map[string]string{"iter.x": "x"}),
		pres(it, "firstIterator.Next", "itFirstDecrements", "", "iter.x--"),
		pres(it, "flattenIterator.Next", "itFlattenClearsCurr", "", "iter.curr = nil"),
		pres(it, "joinIterator.Next", "itJoinAdvances", "", "iter.iters = iter.iters[1:]"),
		pres(it, "runsIterator.Next", "itRunsClearsCurr", "if[0].body", "iter.curr = nil"),
		pres(it, "runsInnerIterator.Next", "itRunsInnerDetaches", "if[1].body", "iter.parent = nil"),
		pres(it, "runsInnerIterator.Next", "itRunsInnerTracksPrev", "", "iter.prev = item"),
		pres(it, "whileIterator.Next", "itWhileSetsDone", "if[2].body", "iter.done = true"),
		ex(it, "whileIterator.Next", "itWhileDone", "if[0].cond", "Bool", []Param{{"done", "Bool"}}, map[string]string{"iter.done": "done"}),

		// ---------------------------------------------------------------- stream
		ex(st, "peekable.Next", "stPeekNextHas", "if[0].cond", "Bool", []Param{{"has", "Bool"}}, map[string]string{"s.has": "has"}),
		pres(st, "peekable.Next", "stPeekNextClearsHas", "if[0].body", "s.has = false"),
		ex(st, "peekable.Peek", "stPeekPulls", "if[0].cond", "Bool", []Param{{"has", "Bool"}}, map[string]string{"s.has": "has"}),
		pres(st, "peekable.Peek", "stPeekSetsHas", "if[0].body", "s.has = true"),
		// reducers: deferred Close (hypotheses of the *_closes theorems)
		deferFirst(st, "Collect", "stCollectDefersClose"),
		deferFirst(st, "Last", "stLastDefersClose"),
		deferFirst(st, "One", "stOneDefersClose"),
		deferFirst(st, "Reduce", "stReduceDefersClose"),
		deferFirst("xmath/xrand", "rSampleStream", "sampleStreamDefersClose"),
		wrapperSite(mod, "xmath/xrand", "SampleStream", "sampleStreamW",
			"{C : Type _} {R : Type _} {S : Type _} {K : Type _} {O : Type _} (rSampleStream : C → R → S → K → O) (defaultRand : R) (ctx : C) (s : S) (k : K) : O",
			map[string]string{"ctx": "ctx", "s": "s", "k": "k", "defaultRand{}": "defaultRand"}, map[string]string{"rSampleStream": "rSampleStream"}, ""),
		// Last
		ex(st, "Last", "stLastStoreGuard", "for[0].body/if[2].cond", "Bool", I("n"), lastVars),
		ex(st, "Last", "stLastSlot", "for[0].body/index[buf][0].idx", "Int", I("i", "n"), lastVars),
		pres(st, "Last", "stLastCounts", "for[0].body", "i++"),
		ex(st, "Last", "stLastShort", "if[3].cond", "Bool", I("i", "n"), lastVars),
		ex(st, "Last", "stLastRotGuard", "if[4].cond", "Bool", I("n"), lastVars),
		ex(st, "Last", "stLastIdx", "assign[idx][0].rhs", "Int", I("i", "n"), lastVars),
		Site{Module: mod, Pkg: st, Func: "Last", Name: "stLastSplit", Kind: Custom, Params: I("n", "idx"), Vars: lastVars, Custom: combSliceBound("out", 0, "lo")},
		// combinators: flags
		ex(st, "chunkStream.Next", "stChunkFull", "if[2].cond", "Bool", I("len", "size"), map[string]string{"len(s.chunk)": "len", "s.chunkSize": "size"}),
		ex(st, "chunkStream.Next", "stChunkFlush", "if[3].cond", "Bool", I("len"), map[string]string{"len(s.chunk)": "len"}),
		pres(st, "compactStream.Next", "stCompactClearsFirst", "", "s.first = false"),
		cnt(st, "compactStream.Next", "stCompactSetsPrev", "", "s.prev = item"),
		ex(st, "firstStream.Next", "stFirstDone", "if[0].cond", "Bool", I("x"), map[string]string{"s.x": "x"}),
		pres(st, "firstStream.Next", "stFirstDecrements", "", "s.x--"),
		pres(st, "flattenStream.Next", "stFlattenClosesEnded", "", "s.curr.Close()"),
		pres(st, "flattenStream.Next", "stFlattenClearsCurr", "", "s.curr = nil"),
		cnt(st, "flattenSlicesStream.Next", "stFlattenSlicesWritesInput", "", "s.buffer[0] = zero"),
		pres(st, "joinStream.Next", "stJoinClosesEnded", "", "s.remaining[0].Close()"),
		pres(st, "joinStream.Next", "stJoinAdvances", "", "s.remaining = s.remaining[1:]"),
		pres(st, "runsStream.Next", "stRunsClosesCurr", "if[0].body", "s.curr.Close()"),
		pres(st, "runsStream.Next", "stRunsClearsCurr", "if[0].body", "s.curr = nil"),
		pres(st, "runsInnerStream.Close", "stRunsInnerCloseDetaches", "", "s.parent = nil"),
		pres(st, "runsInnerStream.Next", "stRunsInnerTracksPrev", "", "s.prev = item"),
		ex(st, "whileStream.Next", "stWhileDone", "if[0].cond", "Bool", []Param{{"done", "Bool"}}, map[string]string{"s.done": "done"}),
		ex(st, "whileStream.Next", "stWhilePulls", "if[1].cond", "Bool", []Param{{"has", "Bool"}}, map[string]string{"s.has": "has"}),
		pres(st, "whileStream.Next", "stWhileSetsHas", "if[1].body", "s.has = true"),
		pres(st, "whileStream.Next", "stWhileSetsDone", "", "s.done = true"),
		pres(st, "whileStream.Next", "stWhileClearsHas", "", "s.has = false"),
		// Close forwarding of every wrapper
		pres(st, "peekable.Close", "stPeekCloseForwards", "", "s.inner.Close()"),
		pres(st, "chunkStream.Close", "stChunkCloseForwards", "", "s.inner.Close()"),
		pres(st, "compactStream.Close", "stCompactCloseForwards", "", "s.inner.Close()"),
		pres(st, "filterStream.Close", "stFilterCloseForwards", "", "s.inner.Close()"),
		pres(st, "firstStream.Close", "stFirstCloseForwards", "", "s.inner.Close()"),
		pres(st, "flattenStream.Close", "stFlattenCloseCurr", "if[0].body", "s.curr.Close()"),
		pres(st, "flattenStream.Close", "stFlattenCloseForwards", "", "s.inner.Close()"),
		pres(st, "flattenSlicesStream.Close", "stFlattenSlicesCloseForwards", "", "s.inner.Close()"),
		pres(st, "joinStream.Close", "stJoinCloseForwards", "range[0].body", "s.remaining[i].Close()"),
		pres(st, "mapStream.Close", "stMapCloseForwards", "", "s.inner.Close()"),
		pres(st, "runsStream.Close", "stRunsCloseForwards", "", "s.inner.Close()"),
		pres(st, "whileStream.Close", "stWhileCloseForwards", "", "s.inner.Close()"),

		// ---------------------------------------------------------------- control skeletons
		// (consumed by Juniper/Proofs/Skeleton.lean: tie lemmas against Model/CombSkel.lean)
		skel(it, "counterIterator.Next", "skItCounterNext"),
		skel(it, "repeatIterator.Next", "skItRepeatNext"),
		skel(it, "sliceIterator.Next", "skItSliceNext"),
		skel(it, "peekable.Next", "skItPeekNext"),
		skel(it, "peekable.Peek", "skItPeekPeek"),
		skel(it, "chunkIterator.Next", "skItChunkNext"),
		skel(it, "compactIterator.Next", "skItCompactNext"),
		skel(it, "filterIterator.Next", "skItFilterNext"),
		skel(it, "firstIterator.Next", "skItFirstNext"),
		skel(it, "flattenIterator.Next", "skItFlattenNext"),
		skel(it, "joinIterator.Next", "skItJoinNext"),
		skel(it, "mapIterator.Next", "skItMapNext"),
		skel(it, "runsIterator.Next", "skItRunsNext"),
		skel(it, "runsInnerIterator.Next", "skItRunsInnerNext"),
		skel(it, "whileIterator.Next", "skItWhileNext"),
		skel(it, "Collect", "skItCollect"),
		skel(it, "Equal", "skItEqual"),
		skel(it, "Last", "skItLast"),
		skel(it, "One", "skItOne"),
		skel(it, "Reduce", "skItReduce"),
		skel(st, "iteratorStream.Next", "skStFromIterNext"),
		skel(st, "iteratorStream.Close", "skStFromIterClose"),
		skel(st, "peekable.Next", "skStPeekNext"),
		skel(st, "peekable.Peek", "skStPeekPeek"),
		skel(st, "peekable.Close", "skStPeekClose"),
		skel(st, "chunkStream.Next", "skStChunkNext"),
		skel(st, "chunkStream.Close", "skStChunkClose"),
		skel(st, "compactStream.Next", "skStCompactNext"),
		skel(st, "compactStream.Close", "skStCompactClose"),
		skel(st, "filterStream.Next", "skStFilterNext"),
		skel(st, "filterStream.Close", "skStFilterClose"),
		skel(st, "firstStream.Next", "skStFirstNext"),
		skel(st, "firstStream.Close", "skStFirstClose"),
		skel(st, "flattenStream.Next", "skStFlattenNext"),
		skel(st, "flattenStream.Close", "skStFlattenClose"),
		skel(st, "flattenSlicesStream.Next", "skStFlattenSlicesNext"),
		skel(st, "flattenSlicesStream.Close", "skStFlattenSlicesClose"),
		skel(st, "joinStream.Next", "skStJoinNext"),
		skel(st, "joinStream.Close", "skStJoinClose"),
		skel(st, "mapStream.Next", "skStMapNext"),
		skel(st, "mapStream.Close", "skStMapClose"),
		skel(st, "runsStream.Next", "skStRunsNext"),
		skel(st, "runsStream.Close", "skStRunsClose"),
		skel(st, "runsInnerStream.Next", "skStRunsInnerNext"),
		skel(st, "runsInnerStream.Close", "skStRunsInnerClose"),
		skel(st, "whileStream.Next", "skStWhileNext"),
		skel(st, "whileStream.Close", "skStWhileClose"),
		skel(st, "Collect", "skStCollect"),
		skel(st, "Last", "skStLast"),
		skel(st, "One", "skStOne"),
		skel(st, "Reduce", "skStReduce"),
		Site{Module: mod, Pkg: st, Name: "combConcurrencyOps", Kind: Custom, Custom: combConcurrencyOps},

		// ---------------------------------------------------------------- sources and constructors (C07-A1)
		Site{Module: mod, Pkg: it, Name: "itApi", Kind: Custom, Custom: combExportedFuncs},
		Site{Module: mod, Pkg: st, Name: "stApi", Kind: Custom, Custom: combExportedFuncs},
		Site{Module: mod, Pkg: xs, Name: "xsApi", Kind: Custom, Custom: combExportedFuncs},
		ctor(it, "Counter", "itCounterInitI", "i", "Int", I("n"), map[string]string{"n": "n"}),
		ctor(it, "Counter", "itCounterInitN", "n", "Int", I("n"), map[string]string{"n": "n"}),
		ex(it, "counterIterator.Next", "itCounterItem", "assign[item][0].rhs", "Int", I("i", "n"), map[string]string{"iter.i": "i", "iter.n": "n"}),
		ctor(it, "Repeat", "itRepeatInitX", "x", "Int", I("n"), map[string]string{"n": "n"}),
		ctor(it, "WithPeek", "itPeekInitHas", "has", "Bool", nil, nil),
		ctor(it, "CompactFunc", "itCompactInitFirst", "first", "Bool", nil, nil),
		ctor(it, "First", "itFirstInitX", "x", "Int", I("n"), map[string]string{"n": "n"}),
		ctor(it, "While", "itWhileInitDone", "done", "Bool", nil, nil),
		ctor(it, "Chunk", "itChunkInitSize", "chunkSize", "Int", I("size"), map[string]string{"chunkSize": "size"}),
		ctor(st, "WithPeek", "stPeekInitHas", "has", "Bool", nil, nil),
		ctor(st, "CompactFunc", "stCompactInitFirst", "first", "Bool", nil, nil),
		ctor(st, "First", "stFirstInitX", "x", "Int", I("n"), map[string]string{"n": "n"}),
		ctor(st, "Chunk", "stChunkInitSize", "chunkSize", "Int", I("size"), map[string]string{"chunkSize": "size"}),
		ex(it, "emptyIterator.Next", "itEmptyOk", "return[0].result[1]", "Bool", nil, nil),
		Site{Module: mod, Pkg: it, Func: "chanIterator.Next", Name: "itChanBody", Kind: StmtList},
		combSkeletonSite(mod, it, "chanIterator.Next", "skItChanNext"),
		combSkeletonSite(mod, it, "emptyIterator.Next", "skItEmptyNext"),
		combSkeletonSite(mod, st, "chanStream.Next", "skStChanNext"),
		combSkeletonSite(mod, st, "chanStream.Close", "skStChanClose"),
		combSkeletonSite(mod, st, "emptyStream.Next", "skStEmptyNext"),
		combSkeletonSite(mod, st, "emptyStream.Close", "skStEmptyClose"),
		combSkeletonSite(mod, st, "errorStream.Next", "skStErrorNext"),
		combSkeletonSite(mod, st, "errorStream.Close", "skStErrorClose"),
		combSkeletonSite(mod, "xmath/xrand", "rSampleStream", "skSampleStream"),
		// the `Compact` / `Collect` wrappers: whole body, callee as a parameter
		wrapperSite(mod, it, "Compact", "itCompactW", "{I : Type _} {T : Type _} {R : Type _} [BEq T] (compactFunc : I → (T → T → Bool) → R) (iter : I) : R",
			map[string]string{"iter": "iter"}, map[string]string{"CompactFunc": "compactFunc"}, ""),
		wrapperSite(mod, st, "Compact", "stCompactW", "{I : Type _} {T : Type _} {R : Type _} [BEq T] (compactFunc : I → (T → T → Bool) → R) (s : I) : R",
			map[string]string{"s": "s"}, map[string]string{"CompactFunc": "compactFunc"}, ""),
		wrapperSite(mod, it, "Collect", "itCollectW", "{I : Type _} {T : Type _} {L : Type _} {R : Type _} (reduce : I → L → (L → T → L) → R) (nil_ : L) (append : L → T → L) (iter : I) : R",
			map[string]string{"iter": "iter", "nil": "nil_"}, map[string]string{"Reduce": "reduce", "append": "append"}, ""),
		// stream sources: returned error operands
		er("emptyStream.Next", "stEmptyRet", 0),
		er("errorStream.Next", "stErrorRet", 0),
		eg("iteratorStream.Next", "stFromIterCtxGuard", "if[0].cond"),
		er("iteratorStream.Next", "stFromIterCtxRet", 0),
		ex(st, "iteratorStream.Next", "stFromIterEndGuard", "if[1].cond", "Bool", B("ok"), okVars),
		er("iteratorStream.Next", "stFromIterEndRet", 1),
		er("iteratorStream.Next", "stFromIterItemRet", 2),
		ex(st, "chanStream.Next", "stChanEndGuard", "comm[s.c][0].body/if[0].cond", "Bool", B("ok"), okVars),
		ex(st, "chanStream.Next", "stChanEndRet", "comm[s.c][0].body/return[0].result[1]", "Int", I("e"), errVars),
		ex(st, "chanStream.Next", "stChanItemRet", "comm[s.c][0].body/return[1].result[1]", "Int", I("e"), errVars),
		ex(st, "chanStream.Next", "stChanCtxRet", "comm[ctx.Done()][0].body/return[0].result[1]", "Int", I("e"), errVars),
		Site{Module: mod, Pkg: st, Func: "chanStream.Next", Name: "stChanArms", Kind: Custom, Sel: "select[0]", Custom: func(c *Ctx, s *Site) (string, error) {
			fd, err := c.FindFunc(s.Pkg, s.Func)
			if err != nil {
				return "", err
			}
			n, err := c.SelectPath(fd, s.Sel)
			if err != nil {
				return "", err
			}
			sel, ok := n.(*ast.SelectStmt)
			if !ok {
				return "", fmt.Errorf("not a select")
			}
			var arms []string
			for _, cl := range sel.Body.List {
				arms = append(arms, leanString(c.commChan(cl.(*ast.CommClause))))
			}
			sort.Strings(arms)
			return fmt.Sprintf("/-- channels of the arms of the `select` of `%s`, sorted (\"\" = default) -/\ndef %s : List String := [%s]\n", s.Func, s.Name, strings.Join(arms, ", ")), nil
		}},

		// ---------------------------------------------------------------- error guards and returned error operands (C08-F1)
		eg("peekable.Peek", "stPeekEndGuard", "if[1].cond"), er("peekable.Peek", "stPeekEndRet", 0),
		eg("peekable.Peek", "stPeekErrGuard", "if[2].cond"), er("peekable.Peek", "stPeekErrRet", 1),
		er("peekable.Peek", "stPeekItemRet", 2), er("peekable.Next", "stPeekNextItemRet", 0),
		eg("Collect", "stCollectEndGuard", "if[0].cond"), er("Collect", "stCollectEndRet", 0),
		eg("Collect", "stCollectErrGuard", "if[1].cond"), er("Collect", "stCollectErrRet", 1),
		eg("Last", "stLastEndGuard", "if[0].cond"), eg("Last", "stLastErrGuard", "if[1].cond"), er("Last", "stLastErrRet", 0),
		er("Last", "stLastShortRet", 1), er("Last", "stLastRet", 2),
		eg("One", "stOneEmptyGuard", "if[0].cond"), er("One", "stOneEmptyRet", 0),
		eg("One", "stOneErr1Guard", "if[1].cond"), er("One", "stOneErr1Ret", 1),
		eg("One", "stOneOkGuard", "if[2].cond"), er("One", "stOneOkRet", 2),
		eg("One", "stOneErr2Guard", "if[3].cond"), er("One", "stOneErr2Ret", 3),
		er("One", "stOneMoreRet", 4),
		eg("Reduce", "stReduceEndGuard", "if[0].cond"), er("Reduce", "stReduceEndRet", 0),
		eg("Reduce", "stReduceErrGuard", "if[1].cond"), er("Reduce", "stReduceErrRet", 1),
		eg("Reduce", "stReduceCbGuard", "if[2].cond"), er("Reduce", "stReduceCbRet", 2),
		eg("chunkStream.Next", "stChunkEndGuard", "if[0].cond"), eg("chunkStream.Next", "stChunkErrGuard", "if[1].cond"),
		er("chunkStream.Next", "stChunkErrRet", 0), er("chunkStream.Next", "stChunkFullRet", 1),
		er("chunkStream.Next", "stChunkFlushRet", 2), er("chunkStream.Next", "stChunkDoneRet", 3),
		eg("compactStream.Next", "stCompactErrGuard", "if[0].cond"), er("compactStream.Next", "stCompactErrRet", 0),
		er("compactStream.Next", "stCompactFirstRet", 1), er("compactStream.Next", "stCompactItemRet", 2),
		eg("filterStream.Next", "stFilterErrGuard", "if[0].cond"), er("filterStream.Next", "stFilterErrRet", 0),
		eg("filterStream.Next", "stFilterCbGuard", "if[1].cond"), er("filterStream.Next", "stFilterCbRet", 1),
		er("filterStream.Next", "stFilterItemRet", 2),
		er("firstStream.Next", "stFirstDoneRet", 0),
		eg("firstStream.Next", "stFirstErrGuard", "if[1].cond"), er("firstStream.Next", "stFirstErrRet", 1),
		er("firstStream.Next", "stFirstItemRet", 2),
		eg("flattenStream.Next", "stFlattenOuterErrGuard", "if[1].cond"), er("flattenStream.Next", "stFlattenOuterErrRet", 0),
		eg("flattenStream.Next", "stFlattenEndGuard", "if[2].cond"),
		eg("flattenStream.Next", "stFlattenErrGuard", "if[3].cond"), er("flattenStream.Next", "stFlattenErrRet", 1),
		er("flattenStream.Next", "stFlattenItemRet", 2),
		er("flattenSlicesStream.Next", "stFlattenSlicesItemRet", 0),
		eg("flattenSlicesStream.Next", "stFlattenSlicesErrGuard", "if[1].cond"), er("flattenSlicesStream.Next", "stFlattenSlicesErrRet", 1),
		eg("joinStream.Next", "stJoinEndGuard", "if[0].cond"),
		eg("joinStream.Next", "stJoinErrGuard", "if[1].cond"), er("joinStream.Next", "stJoinErrRet", 0),
		er("joinStream.Next", "stJoinItemRet", 1), er("joinStream.Next", "stJoinDoneRet", 2),
		eg("mapStream.Next", "stMapErrGuard", "if[0].cond"), er("mapStream.Next", "stMapErrRet", 0),
		eg("mapStream.Next", "stMapCbGuard", "if[1].cond"), er("mapStream.Next", "stMapCbRet", 1),
		er("mapStream.Next", "stMapItemRet", 2),
		eg("runsStream.Next", "stRunsDrainEndGuard", "if[1].cond"),
		eg("runsStream.Next", "stRunsDrainErrGuard", "if[2].cond"), er("runsStream.Next", "stRunsDrainErrRet", 0),
		eg("runsStream.Next", "stRunsPeekErrGuard", "if[3].cond"), er("runsStream.Next", "stRunsPeekErrRet", 1),
		er("runsStream.Next", "stRunsItemRet", 2),
		er("runsInnerStream.Next", "stRunsInnerDetachedRet", 0),
		eg("runsInnerStream.Next", "stRunsInnerEndGuard", "if[1].cond"), er("runsInnerStream.Next", "stRunsInnerEndRet", 1),
		eg("runsInnerStream.Next", "stRunsInnerErrGuard", "if[2].cond"), er("runsInnerStream.Next", "stRunsInnerErrRet", 2),
		er("runsInnerStream.Next", "stRunsInnerOtherRet", 3),
		er("whileStream.Next", "stWhileDoneRet", 0),
		eg("whileStream.Next", "stWhileErrGuard", "if[2].cond"), er("whileStream.Next", "stWhileErrRet", 1),
		eg("whileStream.Next", "stWhileCbGuard", "if[3].cond"), er("whileStream.Next", "stWhileCbRet", 2),
		er("whileStream.Next", "stWhileStopRet", 3), er("whileStream.Next", "stWhileItemRet", 4),

		ex("xmath/xrand", "rSampleStream", "sampleEndGuard", "if[0].cond", "Bool", I("e"), errVars),
		ex("xmath/xrand", "rSampleStream", "sampleErrGuard", "if[1].cond", "Bool", I("e"), errVars),
		ex("xmath/xrand", "rSampleStream", "sampleErrRet", "return[0].result[1]", "Int", I("e"), errVars),
		ex("xmath/xrand", "rSampleStream", "sampleRet", "return[1].result[1]", "Int", I("e"), errVars),

		// ---------------------------------------------------------------- value-level expressions (C07-B2): callback
		// argument order and polarity, the tests of One / Equal, loop conditions, slice bounds
		combExprSite(mod, it, "compactIterator.Next", "itCompactKeeps", "if[2].cond", "{α : Type _} (eq : α → α → Bool) (prev item : α) : Bool",
			map[string]string{"iter.prev": "prev", "item": "item"}, map[string]string{"iter.eq": "eq"}),
		combExprSite(mod, st, "compactStream.Next", "stCompactKeeps", "if[2].cond", "{α : Type _} (eq : α → α → Bool) (prev item : α) : Bool",
			map[string]string{"s.prev": "prev", "item": "item"}, map[string]string{"s.eq": "eq"}),
		combExprSite(mod, it, "filterIterator.Next", "itFilterKeeps", "if[1].cond", "{α : Type _} (keep : α → Bool) (item : α) : Bool",
			map[string]string{"item": "item"}, map[string]string{"iter.keep": "keep"}),
		combExprSite(mod, st, "filterStream.Next", "stFilterKeeps", "if[2].cond", "(ok : Bool) : Bool", map[string]string{"ok": "ok"}, nil),
		combExprSite(mod, it, "whileIterator.Next", "itWhileStops", "if[2].cond", "{α : Type _} (f : α → Bool) (item : α) : Bool",
			map[string]string{"item": "item"}, map[string]string{"iter.f": "f"}),
		combExprSite(mod, st, "whileStream.Next", "stWhileStops", "if[4].cond", "(ok : Bool) : Bool", map[string]string{"ok": "ok"}, nil),
		combExprSite(mod, it, "runsInnerIterator.Next", "itRunsInnerStops", "if[1].cond", "{α : Type _} (same : α → α → Bool) (prev item : α) (ok : Bool) : Bool",
			map[string]string{"iter.prev": "prev", "item": "item", "ok": "ok"}, map[string]string{"iter.parent.same": "same"}),
		combExprSite(mod, st, "runsInnerStream.Next", "stRunsInnerStops", "if[3].cond", "{α : Type _} (same : α → α → Bool) (prev item : α) : Bool",
			map[string]string{"s.prev": "prev", "item": "item"}, map[string]string{"s.parent.same": "same"}),
		combExprSite(mod, it, "One", "itOneEmpty", "if[0].cond", "(ok : Bool) : Bool", map[string]string{"ok": "ok"}, nil),
		combExprSite(mod, it, "One", "itOneMore", "if[1].cond", "(ok : Bool) : Bool", map[string]string{"ok": "ok"}, nil),
		combExprSite(mod, it, "Equal", "itEqualNone", "if[0].cond", "(len : Int) : Bool", map[string]string{"len(iters)": "len"}, nil),
		combExprSite(mod, it, "Equal", "itEqualStart", "assign[i][0].rhs", ": Int", nil, nil),
		combExprSite(mod, it, "Equal", "itEqualLoops", "for[1].cond", "(i len : Int) : Bool", map[string]string{"i": "i", "len(iters)": "len"}, nil),
		combExprSite(mod, it, "Equal", "itEqualLenDiff", "if[1].cond", "(ok okI : Bool) : Bool", map[string]string{"ok": "ok", "iterIOk": "okI"}, nil),
		combExprSite(mod, it, "Equal", "itEqualItemDiff", "if[2].cond", "{α : Type _} [DecidableEq α] (ok : Bool) (item itemI : α) : Bool",
			map[string]string{"ok": "ok", "item": "item", "iterIItem": "itemI"}, nil),
		combExprSite(mod, it, "Equal", "itEqualDone", "if[3].cond", "(ok : Bool) : Bool", map[string]string{"ok": "ok"}, nil),
		combExprSite(mod, it, "joinIterator.Next", "itJoinLoops", "for[0].cond", "(len : Int) : Bool", map[string]string{"len(iter.iters)": "len"}, nil),
		combExprSite(mod, st, "joinStream.Next", "stJoinLoops", "for[0].cond", "(len : Int) : Bool", map[string]string{"len(s.remaining)": "len"}, nil),
		combExprSite(mod, st, "flattenSlicesStream.Next", "stFlattenSlicesHas", "if[0].cond", "(len : Int) : Bool", map[string]string{"len(s.buffer)": "len"}, nil),
		combExprSite(mod, st, "flattenSlicesStream.Next", "stFlattenSlicesHead", "index[s.buffer][0].idx", ": Int", nil, nil),
		Site{Module: mod, Pkg: st, Func: "flattenSlicesStream.Next", Name: "stFlattenSlicesRest", Kind: Custom, Custom: combSliceBound("s.buffer", 0, "lo")},
		Site{Module: mod, Pkg: it, Func: "Last", Name: "itLastTake", Kind: Custom, Params: I("i", "n", "idx"), Vars: lastVars, Custom: combSliceBound("buf", 0, "hi")},
		Site{Module: mod, Pkg: it, Func: "Last", Name: "itLastFrom", Kind: Custom, Params: I("i", "n", "idx"), Vars: lastVars, Custom: combSliceBound("buf", 1, "lo")},
		Site{Module: mod, Pkg: it, Func: "Last", Name: "itLastUpto", Kind: Custom, Params: I("i", "n", "idx"), Vars: lastVars, Custom: combSliceBound("buf", 2, "hi")},
		Site{Module: mod, Pkg: st, Func: "Last", Name: "stLastTake", Kind: Custom, Params: I("i", "n", "idx"), Vars: lastVars, Custom: combSliceBound("buf", 0, "hi")},
		Site{Module: mod, Pkg: st, Func: "Last", Name: "stLastFrom", Kind: Custom, Params: I("i", "n", "idx"), Vars: lastVars, Custom: combSliceBound("buf", 1, "lo")},
		Site{Module: mod, Pkg: st, Func: "Last", Name: "stLastUpto", Kind: Custom, Params: I("i", "n", "idx"), Vars: lastVars, Custom: combSliceBound("buf", 2, "hi")},

		// ---------------------------------------------------------------- Close of the multi-stream combinators (C09-F2)
		text(st, "joinStream.Close", "stJoinCloseRange", "range[0].x", "range operand"),
		text(st, "joinStream.Close", "stJoinCloseStmt", "range[0].body", "loop body"),
		text(st, "flattenStream.Close", "stFlattenCloseCond", "if[0].cond", "condition"),

		// ---------------------------------------------------------------- xslices
		ex(xs, "Chunk", "xsChunkPanics", "if[0].cond", "Bool", I("size"), map[string]string{"chunkSize": "size"}),
		// (shape after "fix: xslices.Chunk overflowed for a chunkSize near the maximum int": the count is
		// 0 for an empty slice, else (len(s)-1)/chunkSize + 1; a chunk ends at len(s) unless a full chunk fits)
		ex(xs, "Chunk", "xsChunkCount0", "assign[n][0].rhs", "Int", nil, nil),
		ex(xs, "Chunk", "xsChunkNonEmpty", "if[1].cond", "Bool", I("len"), map[string]string{"len(s)": "len"}),
		ex(xs, "Chunk", "xsChunkCount", "if[1].body/assign[n][0].rhs", "Int", I("len", "size"), map[string]string{"len(s)": "len", "chunkSize": "size"}),
		ex(xs, "Chunk", "xsChunkMake", "call[make][0].arg[1]", "Int", I("n"), map[string]string{"n": "n"}),
		ex(xs, "Chunk", "xsChunkStart", "assign[start][0].rhs", "Int", I("i", "size"), map[string]string{"i": "i", "chunkSize": "size"}),
		ex(xs, "Chunk", "xsChunkEndLast", "assign[end][0].rhs", "Int", I("len"), map[string]string{"len(s)": "len"}),
		ex(xs, "Chunk", "xsChunkFull", "range[0].body/if[0].cond", "Bool", I("len", "start", "size"), map[string]string{"len(s)": "len", "start": "start", "chunkSize": "size"}),
		ex(xs, "Chunk", "xsChunkEnd", "range[0].body/if[0].body/assign[end][0].rhs", "Int", I("start", "size"), map[string]string{"start": "start", "chunkSize": "size"}),
		ex(xs, "Runs", "xsRunsStart0", "assign[start][0].rhs", "Int", nil, nil),
		ex(xs, "Runs", "xsRunsEnd0", "assign[end][0].rhs", "Int", nil, nil),
		ex(xs, "Runs", "xsRunsNonEmpty", "if[0].cond", "Bool", I("len"), map[string]string{"len(s)": "len"}),
		ex(xs, "Runs", "xsRunsEnd1", "if[0].body/assign[end][0].rhs", "Int", nil, nil),
		ex(xs, "Runs", "xsRunsI0", "assign[i][0].rhs", "Int", nil, nil),
		ex(xs, "Runs", "xsRunsLoops", "for[0].cond", "Bool", I("i", "len"), map[string]string{"i": "i", "len(s)": "len"}),
		ex(xs, "Runs", "xsRunsCmpLeft", "for[0].body/index[s][0].idx", "Int", I("i"), map[string]string{"i": "i"}),
		ex(xs, "Runs", "xsRunsCmpRight", "for[0].body/index[s][1].idx", "Int", I("i"), map[string]string{"i": "i"}),
		ex(xs, "Runs", "xsRunsExtend", "for[0].body/if[0].body/assign[end][0].rhs", "Int", I("i"), map[string]string{"i": "i"}),
		ex(xs, "Runs", "xsRunsNewStart", "for[0].body/if[0].else/assign[start][0].rhs", "Int", I("i"), map[string]string{"i": "i"}),
		ex(xs, "Runs", "xsRunsNewEnd", "for[0].body/if[0].else/assign[end][0].rhs", "Int", I("i"), map[string]string{"i": "i"}),
		ex(xs, "Runs", "xsRunsFinal", "if[2].cond", "Bool", I("e"), map[string]string{"end": "e"}),
	)
}
