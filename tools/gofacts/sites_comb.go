package main

// iterator, stream, xslices (combinators) and xrand.rSampleStream -> Juniper.Gen.Comb.
// Consumed by Model/Iter.lean, Model/Stream.lean, Model/XSlices.lean (C07, C08, C09).

import (
	"fmt"
	"go/ast"
	"go/token"
	"strings"
)

// ---------------------------------------------------------------------------------------------
// Control skeletons (tie 1 for the hand-written state machines of Model/Iter.lean, Model/Stream.lean).
//
// combSkeleton renders the body of a method as the nested sequence of its statement kinds, all
// identifiers, operators and literals normalised away:
//   asg (assignment / short declaration)   var (declaration)   call (expression statement)
//   inc dec   ret   brk cont goto fall   defer go send   if{..}else{..}   for{..}   range{..}
//   switch{case{..}..}   select{case{..}..}   {..} (block)
// A statement that calls a method named Next / Peek / Close is tagged <Next> / <Peek> / <Close> (one
// tag per call, in source order); a call through a field of the receiver (a user callback such as
// s.keep(..), iter.f(..)) is tagged <cb>. So an added early return, a dropped branch, an extra pull
// from the source, an extra or missing callback call or Close, a goroutine or a channel operation all
// change the string.

func combSkelTags(recv string, nodes ...ast.Node) string {
	var b strings.Builder
	for _, n := range nodes {
		if n == nil {
			continue
		}
		ast.Inspect(n, func(x ast.Node) bool {
			if _, ok := x.(*ast.FuncLit); ok {
				b.WriteString("<func>")
				return false
			}
			ce, ok := x.(*ast.CallExpr)
			if !ok {
				return true
			}
			if se, ok := ce.Fun.(*ast.SelectorExpr); ok {
				switch se.Sel.Name {
				case "Next", "Peek", "Close":
					b.WriteString("<" + se.Sel.Name + ">")
				default:
					if id, ok := se.X.(*ast.Ident); ok && recv != "" && id.Name == recv {
						b.WriteString("<cb>")
					}
				}
			} else if id, ok := ce.Fun.(*ast.Ident); ok && !combBuiltin[id.Name] {
				b.WriteString("<fn>")
			}
			return true
		})
	}
	return b.String()
}

var combBuiltin = map[string]bool{"append": true, "len": true, "cap": true, "make": true, "copy": true, "new": true,
	"panic": true, "delete": true, "min": true, "max": true, "clear": true}

// methods whose skeleton is extracted: (package, function)
var combSkelFuncs [][2]string

// combConcurrencyOps counts go statements, channel sends/receives and select statements in all the
// methods whose skeleton is extracted (C09 "never concurrent": the caller's-goroutine combinators
// start no goroutine and touch no channel, so every call they make on their source happens inside,
// and is finished before the end of, the consumer's own call).
func combConcurrencyOps(c *Ctx, s *Site) (string, error) {
	n := 0
	for _, pf := range combSkelFuncs {
		fd, err := c.FindFunc(pf[0], pf[1])
		if err != nil {
			return "", err
		}
		ast.Inspect(fd.Body, func(x ast.Node) bool {
			switch y := x.(type) {
			case *ast.GoStmt, *ast.SendStmt, *ast.SelectStmt:
				n++
			case *ast.UnaryExpr:
				if y.Op == token.ARROW {
					n++
				}
			}
			return true
		})
	}
	return fmt.Sprintf("/-- go statements, channel operations and selects in the %d combinator methods / reducers -/\ndef %s : Nat := %d\n", len(combSkelFuncs), s.Name, n), nil
}

func combSkelStmts(recv string, list []ast.Stmt) string {
	parts := make([]string, 0, len(list))
	for _, st := range list {
		parts = append(parts, combSkelStmt(recv, st))
	}
	return strings.Join(parts, ";")
}

func combSkelStmt(recv string, st ast.Stmt) string {
	switch x := st.(type) {
	case *ast.AssignStmt:
		var ns []ast.Node
		for _, e := range x.Rhs {
			ns = append(ns, e)
		}
		for _, e := range x.Lhs {
			ns = append(ns, e)
		}
		return "asg" + combSkelTags(recv, ns...)
	case *ast.DeclStmt:
		return "var" + combSkelTags(recv, x.Decl)
	case *ast.ExprStmt:
		return "call" + combSkelTags(recv, x.X)
	case *ast.IncDecStmt:
		if x.Tok == token.INC {
			return "inc"
		}
		return "dec"
	case *ast.ReturnStmt:
		var ns []ast.Node
		for _, e := range x.Results {
			ns = append(ns, e)
		}
		return "ret" + combSkelTags(recv, ns...)
	case *ast.BranchStmt:
		switch x.Tok {
		case token.BREAK:
			return "brk"
		case token.CONTINUE:
			return "cont"
		case token.GOTO:
			return "goto"
		}
		return "fall"
	case *ast.BlockStmt:
		return "{" + combSkelStmts(recv, x.List) + "}"
	case *ast.IfStmt:
		s := "if"
		if x.Init != nil {
			s += "(" + combSkelStmt(recv, x.Init) + ")"
		}
		s += combSkelTags(recv, x.Cond) + "{" + combSkelStmts(recv, x.Body.List) + "}"
		if x.Else != nil {
			if b, ok := x.Else.(*ast.BlockStmt); ok {
				s += "else{" + combSkelStmts(recv, b.List) + "}"
			} else {
				s += "else " + combSkelStmt(recv, x.Else)
			}
		}
		return s
	case *ast.ForStmt:
		s := "for"
		if x.Init != nil {
			s += "(" + combSkelStmt(recv, x.Init) + ")"
		}
		if x.Cond != nil {
			s += "?" + combSkelTags(recv, x.Cond)
		}
		if x.Post != nil {
			s += "(" + combSkelStmt(recv, x.Post) + ")"
		}
		return s + "{" + combSkelStmts(recv, x.Body.List) + "}"
	case *ast.RangeStmt:
		return "range" + combSkelTags(recv, x.X) + "{" + combSkelStmts(recv, x.Body.List) + "}"
	case *ast.SwitchStmt, *ast.TypeSwitchStmt, *ast.SelectStmt:
		kind := "switch"
		var body *ast.BlockStmt
		switch y := x.(type) {
		case *ast.SwitchStmt:
			body = y.Body
		case *ast.TypeSwitchStmt:
			body = y.Body
		case *ast.SelectStmt:
			kind, body = "select", y.Body
		}
		var cs []string
		for _, c := range body.List {
			switch cc := c.(type) {
			case *ast.CaseClause:
				cs = append(cs, "case{"+combSkelStmts(recv, cc.Body)+"}")
			case *ast.CommClause:
				cs = append(cs, "case{"+combSkelStmts(recv, cc.Body)+"}")
			}
		}
		return kind + "{" + strings.Join(cs, ";") + "}"
	case *ast.DeferStmt:
		return "defer" + combSkelTags(recv, x.Call)
	case *ast.GoStmt:
		return "go" + combSkelTags(recv, x.Call)
	case *ast.SendStmt:
		return "send"
	case *ast.LabeledStmt:
		return "label:" + combSkelStmt(recv, x.Stmt)
	case *ast.EmptyStmt:
		return "empty"
	}
	return fmt.Sprintf("?%T", st)
}

// combSkeleton is the Custom callback: `def <Name> : String := "<skeleton of Func>"`.
func combSkeleton(c *Ctx, s *Site) (string, error) {
	fd, err := c.FindFunc(s.Pkg, s.Func)
	if err != nil {
		return "", err
	}
	if fd.Body == nil {
		return "", fmt.Errorf("%s has no body", s.Func)
	}
	recv := ""
	if fd.Recv != nil && len(fd.Recv.List) > 0 && len(fd.Recv.List[0].Names) > 0 {
		recv = fd.Recv.List[0].Names[0].Name
	}
	sk := combSkelStmts(recv, fd.Body.List)
	return fmt.Sprintf("/-- control skeleton of `%s.%s` -/\ndef %s : String := %s\n", s.Pkg, s.Func, s.Name, leanString(sk)), nil
}

// combSliceBound extracts the low/high bound of the k-th slice expression x[lo:hi] in a function.
func combSliceBound(x string, k int, which string) func(c *Ctx, s *Site) (string, error) {
	return func(c *Ctx, s *Site) (string, error) {
		fd, err := c.FindFunc(s.Pkg, s.Func)
		if err != nil {
			return "", err
		}
		var hits []*ast.SliceExpr
		ast.Inspect(fd.Body, func(n ast.Node) bool {
			if se, ok := n.(*ast.SliceExpr); ok && c.Text(se.X) == x {
				hits = append(hits, se)
			}
			return true
		})
		if k >= len(hits) {
			return "", fmt.Errorf("only %d slice expression(s) of %s, wanted #%d", len(hits), x, k)
		}
		var e ast.Expr
		if which == "lo" {
			e = hits[k].Low
		} else {
			e = hits[k].High
		}
		if e == nil {
			return "", fmt.Errorf("slice expression %s has no %s bound", c.Pretty(hits[k]), which)
		}
		env := &trEnv{c: c, s: s, locals: map[string]string{}, consts: map[string]string{}}
		t, _, err := env.tr(e)
		if err != nil {
			return "", err
		}
		return fmt.Sprintf("/-- %s bound of `%s` in `%s` -/\ndef %s%s : Int := %s\n", which, c.Pretty(hits[k]), s.Func, s.Name, paramsText(s.Params), t), nil
	}
}

func init() {
	const mod = "Comb"
	I := func(names ...string) []Param {
		var ps []Param
		for _, n := range names {
			ps = append(ps, Param{n, "Int"})
		}
		return ps
	}
	ex := func(pkg, fn, name, sel, typ string, ps []Param, vars map[string]string) Site {
		return Site{Module: mod, Pkg: pkg, Func: fn, Name: name, Kind: Expr, Sel: sel, Type: typ, Params: ps, Vars: vars}
	}
	pres := func(pkg, fn, name, sel, text string) Site {
		return Site{Module: mod, Pkg: pkg, Func: fn, Name: name, Kind: Present, Sel: sel, Text: text}
	}
	cnt := func(pkg, fn, name, sel, text string) Site {
		return Site{Module: mod, Pkg: pkg, Func: fn, Name: name, Kind: Count, Sel: sel, Text: text}
	}
	const it = "iterator"
	const st = "stream"
	const xs = "xslices"
	skel := func(pkg, fn, name string) Site {
		combSkelFuncs = append(combSkelFuncs, [2]string{pkg, fn})
		return Site{Module: mod, Pkg: pkg, Func: fn, Name: name, Kind: Custom, Custom: combSkeleton}
	}
	lastVars := map[string]string{"i": "i", "n": "n", "idx": "idx"}

	register(
		// ---------------------------------------------------------------- iterator sources
		ex(it, "counterIterator.Next", "itCounterDone", "if[0].cond", "Bool", I("i", "n"), map[string]string{"iter.i": "i", "iter.n": "n"}),
		pres(it, "counterIterator.Next", "itCounterAdvances", "", "iter.i++"),
		ex(it, "repeatIterator.Next", "itRepeatDone", "if[0].cond", "Bool", I("x"), map[string]string{"iter.x": "x"}),
		pres(it, "repeatIterator.Next", "itRepeatDecrements", "", "iter.x--"),
		ex(it, "sliceIterator.Next", "itSliceDone", "if[0].cond", "Bool", I("len"), map[string]string{"len(iter.a)": "len"}),
		// peekable
		ex(it, "peekable.Next", "itPeekNextHas", "if[0].cond", "Bool", []Param{{"has", "Bool"}}, map[string]string{"iter.has": "has"}),
		pres(it, "peekable.Next", "itPeekNextClearsHas", "if[0].body", "iter.has = false"),
		ex(it, "peekable.Peek", "itPeekPulls", "if[0].cond", "Bool", []Param{{"has", "Bool"}}, map[string]string{"iter.has": "has"}),
		// Last
		ex(it, "Last", "itLastStoreGuard", "for[0].body/if[1].cond", "Bool", I("n"), lastVars),
		ex(it, "Last", "itLastSlot", "for[0].body/index[buf][0].idx", "Int", I("i", "n"), lastVars),
		pres(it, "Last", "itLastCounts", "for[0].body", "i++"),
		ex(it, "Last", "itLastShort", "if[2].cond", "Bool", I("i", "n"), lastVars),
		ex(it, "Last", "itLastRotGuard", "if[3].cond", "Bool", I("n"), lastVars),
		ex(it, "Last", "itLastIdx", "assign[idx][0].rhs", "Int", I("i", "n"), lastVars),
		Site{Module: mod, Pkg: it, Func: "Last", Name: "itLastSplit", Kind: Custom, Params: I("n", "idx"), Vars: lastVars, Custom: combSliceBound("out", 0, "lo")},
		// combinators
		ex(it, "chunkIterator.Next", "itChunkFull", "if[1].cond", "Bool", I("len", "size"), map[string]string{"len(chunk)": "len", "iter.chunkSize": "size"}),
		ex(it, "chunkIterator.Next", "itChunkFlush", "if[2].cond", "Bool", I("len"), map[string]string{"len(chunk)": "len"}),
		pres(it, "compactIterator.Next", "itCompactClearsFirst", "", "iter.first = false"),
		cnt(it, "compactIterator.Next", "itCompactSetsPrev", "", "iter.prev = item"),
		ex(it, "firstIterator.Next", "itFirstDone", "if[0].cond", "Bool", I("x"), map[string]string{"iter.x": "x"}),
		pres(it, "firstIterator.Next", "itFirstDecrements", "", "iter.x--"),
		pres(it, "flattenIterator.Next", "itFlattenClearsCurr", "", "iter.curr = nil"),
		pres(it, "joinIterator.Next", "itJoinAdvances", "", "iter.iters = iter.iters[1:]"),
		pres(it, "runsIterator.Next", "itRunsClearsCurr", "if[0].body", "iter.curr = nil"),
		pres(it, "runsInnerIterator.Next", "itRunsInnerDetaches", "if[1].body", "iter.parent = nil"),
		pres(it, "runsInnerIterator.Next", "itRunsInnerTracksPrev", "", "iter.prev = item"),
		pres(it, "whileIterator.Next", "itWhileSetsDone", "if[2].body", "iter.done = true"),
		ex(it, "whileIterator.Next", "itWhileDone", "if[0].cond", "Bool", []Param{{"done", "Bool"}}, map[string]string{"iter.done": "done"}),

		// ---------------------------------------------------------------- stream
		ex(st, "peekable.Next", "stPeekNextHas", "if[0].cond", "Bool", []Param{{"has", "Bool"}}, map[string]string{"s.has": "has"}),
		pres(st, "peekable.Next", "stPeekNextClearsHas", "if[0].body", "s.has = false"),
		ex(st, "peekable.Peek", "stPeekPulls", "if[0].cond", "Bool", []Param{{"has", "Bool"}}, map[string]string{"s.has": "has"}),
		pres(st, "peekable.Peek", "stPeekSetsHas", "if[0].body", "s.has = true"),
		// reducers: deferred Close (hypotheses of the *_closes theorems)
		pres(st, "Collect", "stCollectDefersClose", "", "defer s.Close()"),
		pres(st, "Last", "stLastDefersClose", "", "defer s.Close()"),
		pres(st, "One", "stOneDefersClose", "", "defer s.Close()"),
		pres(st, "Reduce", "stReduceDefersClose", "", "defer s.Close()"),
		pres("xmath/xrand", "rSampleStream", "sampleStreamDefersClose", "", "defer s.Close()"),
		// Last
		ex(st, "Last", "stLastStoreGuard", "for[0].body/if[2].cond", "Bool", I("n"), lastVars),
		ex(st, "Last", "stLastSlot", "for[0].body/index[buf][0].idx", "Int", I("i", "n"), lastVars),
		pres(st, "Last", "stLastCounts", "for[0].body", "i++"),
		ex(st, "Last", "stLastShort", "if[3].cond", "Bool", I("i", "n"), lastVars),
		ex(st, "Last", "stLastRotGuard", "if[4].cond", "Bool", I("n"), lastVars),
		ex(st, "Last", "stLastIdx", "assign[idx][0].rhs", "Int", I("i", "n"), lastVars),
		Site{Module: mod, Pkg: st, Func: "Last", Name: "stLastSplit", Kind: Custom, Params: I("n", "idx"), Vars: lastVars, Custom: combSliceBound("out", 0, "lo")},
		// combinators: flags
		ex(st, "chunkStream.Next", "stChunkFull", "if[2].cond", "Bool", I("len", "size"), map[string]string{"len(s.chunk)": "len", "s.chunkSize": "size"}),
		ex(st, "chunkStream.Next", "stChunkFlush", "if[3].cond", "Bool", I("len"), map[string]string{"len(s.chunk)": "len"}),
		pres(st, "compactStream.Next", "stCompactClearsFirst", "", "s.first = false"),
		cnt(st, "compactStream.Next", "stCompactSetsPrev", "", "s.prev = item"),
		ex(st, "firstStream.Next", "stFirstDone", "if[0].cond", "Bool", I("x"), map[string]string{"s.x": "x"}),
		pres(st, "firstStream.Next", "stFirstDecrements", "", "s.x--"),
		pres(st, "flattenStream.Next", "stFlattenClosesEnded", "", "s.curr.Close()"),
		pres(st, "flattenStream.Next", "stFlattenClearsCurr", "", "s.curr = nil"),
		cnt(st, "flattenSlicesStream.Next", "stFlattenSlicesWritesInput", "", "s.buffer[0] = zero"),
		pres(st, "joinStream.Next", "stJoinClosesEnded", "", "s.remaining[0].Close()"),
		pres(st, "joinStream.Next", "stJoinAdvances", "", "s.remaining = s.remaining[1:]"),
		pres(st, "runsStream.Next", "stRunsClosesCurr", "if[0].body", "s.curr.Close()"),
		pres(st, "runsStream.Next", "stRunsClearsCurr", "if[0].body", "s.curr = nil"),
		pres(st, "runsInnerStream.Close", "stRunsInnerCloseDetaches", "", "s.parent = nil"),
		pres(st, "runsInnerStream.Next", "stRunsInnerTracksPrev", "", "s.prev = item"),
		ex(st, "whileStream.Next", "stWhileDone", "if[0].cond", "Bool", []Param{{"done", "Bool"}}, map[string]string{"s.done": "done"}),
		ex(st, "whileStream.Next", "stWhilePulls", "if[1].cond", "Bool", []Param{{"has", "Bool"}}, map[string]string{"s.has": "has"}),
		pres(st, "whileStream.Next", "stWhileSetsHas", "if[1].body", "s.has = true"),
		pres(st, "whileStream.Next", "stWhileSetsDone", "", "s.done = true"),
		pres(st, "whileStream.Next", "stWhileClearsHas", "", "s.has = false"),
		// Close forwarding of every wrapper
		pres(st, "peekable.Close", "stPeekCloseForwards", "", "s.inner.Close()"),
		pres(st, "chunkStream.Close", "stChunkCloseForwards", "", "s.inner.Close()"),
		pres(st, "compactStream.Close", "stCompactCloseForwards", "", "s.inner.Close()"),
		pres(st, "filterStream.Close", "stFilterCloseForwards", "", "s.inner.Close()"),
		pres(st, "firstStream.Close", "stFirstCloseForwards", "", "s.inner.Close()"),
		pres(st, "flattenStream.Close", "stFlattenCloseCurr", "if[0].body", "s.curr.Close()"),
		pres(st, "flattenStream.Close", "stFlattenCloseForwards", "", "s.inner.Close()"),
		pres(st, "flattenSlicesStream.Close", "stFlattenSlicesCloseForwards", "", "s.inner.Close()"),
		pres(st, "joinStream.Close", "stJoinCloseForwards", "range[0].body", "s.remaining[i].Close()"),
		pres(st, "mapStream.Close", "stMapCloseForwards", "", "s.inner.Close()"),
		pres(st, "runsStream.Close", "stRunsCloseForwards", "", "s.inner.Close()"),
		pres(st, "whileStream.Close", "stWhileCloseForwards", "", "s.inner.Close()"),

		// ---------------------------------------------------------------- control skeletons
		// (consumed by Juniper/Proofs/Skeleton.lean: tie lemmas against Model/CombSkel.lean)
		skel(it, "counterIterator.Next", "skItCounterNext"),
		skel(it, "repeatIterator.Next", "skItRepeatNext"),
		skel(it, "sliceIterator.Next", "skItSliceNext"),
		skel(it, "peekable.Next", "skItPeekNext"),
		skel(it, "peekable.Peek", "skItPeekPeek"),
		skel(it, "chunkIterator.Next", "skItChunkNext"),
		skel(it, "compactIterator.Next", "skItCompactNext"),
		skel(it, "filterIterator.Next", "skItFilterNext"),
		skel(it, "firstIterator.Next", "skItFirstNext"),
		skel(it, "flattenIterator.Next", "skItFlattenNext"),
		skel(it, "joinIterator.Next", "skItJoinNext"),
		skel(it, "mapIterator.Next", "skItMapNext"),
		skel(it, "runsIterator.Next", "skItRunsNext"),
		skel(it, "runsInnerIterator.Next", "skItRunsInnerNext"),
		skel(it, "whileIterator.Next", "skItWhileNext"),
		skel(it, "Collect", "skItCollect"),
		skel(it, "Equal", "skItEqual"),
		skel(it, "Last", "skItLast"),
		skel(it, "One", "skItOne"),
		skel(it, "Reduce", "skItReduce"),
		skel(st, "iteratorStream.Next", "skStFromIterNext"),
		skel(st, "iteratorStream.Close", "skStFromIterClose"),
		skel(st, "peekable.Next", "skStPeekNext"),
		skel(st, "peekable.Peek", "skStPeekPeek"),
		skel(st, "peekable.Close", "skStPeekClose"),
		skel(st, "chunkStream.Next", "skStChunkNext"),
		skel(st, "chunkStream.Close", "skStChunkClose"),
		skel(st, "compactStream.Next", "skStCompactNext"),
		skel(st, "compactStream.Close", "skStCompactClose"),
		skel(st, "filterStream.Next", "skStFilterNext"),
		skel(st, "filterStream.Close", "skStFilterClose"),
		skel(st, "firstStream.Next", "skStFirstNext"),
		skel(st, "firstStream.Close", "skStFirstClose"),
		skel(st, "flattenStream.Next", "skStFlattenNext"),
		skel(st, "flattenStream.Close", "skStFlattenClose"),
		skel(st, "flattenSlicesStream.Next", "skStFlattenSlicesNext"),
		skel(st, "flattenSlicesStream.Close", "skStFlattenSlicesClose"),
		skel(st, "joinStream.Next", "skStJoinNext"),
		skel(st, "joinStream.Close", "skStJoinClose"),
		skel(st, "mapStream.Next", "skStMapNext"),
		skel(st, "mapStream.Close", "skStMapClose"),
		skel(st, "runsStream.Next", "skStRunsNext"),
		skel(st, "runsStream.Close", "skStRunsClose"),
		skel(st, "runsInnerStream.Next", "skStRunsInnerNext"),
		skel(st, "runsInnerStream.Close", "skStRunsInnerClose"),
		skel(st, "whileStream.Next", "skStWhileNext"),
		skel(st, "whileStream.Close", "skStWhileClose"),
		skel(st, "Collect", "skStCollect"),
		skel(st, "Last", "skStLast"),
		skel(st, "One", "skStOne"),
		skel(st, "Reduce", "skStReduce"),
		Site{Module: mod, Pkg: st, Name: "combConcurrencyOps", Kind: Custom, Custom: combConcurrencyOps},

		// ---------------------------------------------------------------- xslices
		ex(xs, "Chunk", "xsChunkPanics", "if[0].cond", "Bool", I("size"), map[string]string{"chunkSize": "size"}),
		// (shape after "fix: xslices.Chunk overflowed for a chunkSize near the maximum int": the count is
		// 0 for an empty slice, else (len(s)-1)/chunkSize + 1; a chunk ends at len(s) unless a full chunk fits)
		ex(xs, "Chunk", "xsChunkCount0", "assign[n][0].rhs", "Int", nil, nil),
		ex(xs, "Chunk", "xsChunkNonEmpty", "if[1].cond", "Bool", I("len"), map[string]string{"len(s)": "len"}),
		ex(xs, "Chunk", "xsChunkCount", "if[1].body/assign[n][0].rhs", "Int", I("len", "size"), map[string]string{"len(s)": "len", "chunkSize": "size"}),
		ex(xs, "Chunk", "xsChunkMake", "call[make][0].arg[1]", "Int", I("n"), map[string]string{"n": "n"}),
		ex(xs, "Chunk", "xsChunkStart", "assign[start][0].rhs", "Int", I("i", "size"), map[string]string{"i": "i", "chunkSize": "size"}),
		ex(xs, "Chunk", "xsChunkEndLast", "assign[end][0].rhs", "Int", I("len"), map[string]string{"len(s)": "len"}),
		ex(xs, "Chunk", "xsChunkFull", "range[0].body/if[0].cond", "Bool", I("len", "start", "size"), map[string]string{"len(s)": "len", "start": "start", "chunkSize": "size"}),
		ex(xs, "Chunk", "xsChunkEnd", "range[0].body/if[0].body/assign[end][0].rhs", "Int", I("start", "size"), map[string]string{"start": "start", "chunkSize": "size"}),
		ex(xs, "Runs", "xsRunsStart0", "assign[start][0].rhs", "Int", nil, nil),
		ex(xs, "Runs", "xsRunsEnd0", "assign[end][0].rhs", "Int", nil, nil),
		ex(xs, "Runs", "xsRunsNonEmpty", "if[0].cond", "Bool", I("len"), map[string]string{"len(s)": "len"}),
		ex(xs, "Runs", "xsRunsEnd1", "if[0].body/assign[end][0].rhs", "Int", nil, nil),
		ex(xs, "Runs", "xsRunsI0", "assign[i][0].rhs", "Int", nil, nil),
		ex(xs, "Runs", "xsRunsLoops", "for[0].cond", "Bool", I("i", "len"), map[string]string{"i": "i", "len(s)": "len"}),
		ex(xs, "Runs", "xsRunsCmpLeft", "for[0].body/index[s][0].idx", "Int", I("i"), map[string]string{"i": "i"}),
		ex(xs, "Runs", "xsRunsCmpRight", "for[0].body/index[s][1].idx", "Int", I("i"), map[string]string{"i": "i"}),
		ex(xs, "Runs", "xsRunsExtend", "for[0].body/if[0].body/assign[end][0].rhs", "Int", I("i"), map[string]string{"i": "i"}),
		ex(xs, "Runs", "xsRunsNewStart", "for[0].body/if[0].else/assign[start][0].rhs", "Int", I("i"), map[string]string{"i": "i"}),
		ex(xs, "Runs", "xsRunsNewEnd", "for[0].body/if[0].else/assign[end][0].rhs", "Int", I("i"), map[string]string{"i": "i"}),
		ex(xs, "Runs", "xsRunsFinal", "if[2].cond", "Bool", I("e"), map[string]string{"end": "e"}),
	)
}
