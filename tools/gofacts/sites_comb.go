package main

// iterator, stream, xslices (combinators) and xrand.rSampleStream -> Juniper.Gen.Comb.
// Consumed by Model/Iter.lean, Model/Stream.lean, Model/XSlices.lean (C07, C08, C09).

import (
	"fmt"
	"go/ast"
)

// combSliceBound extracts the low/high bound of the k-th slice expression x[lo:hi] in a function.
func combSliceBound(x string, k int, which string) func(c *Ctx, s *Site) (string, error) {
	return func(c *Ctx, s *Site) (string, error) {
		fd, err := c.FindFunc(s.Pkg, s.Func)
		if err != nil {
			return "", err
		}
		var hits []*ast.SliceExpr
		ast.Inspect(fd.Body, func(n ast.Node) bool {
			if se, ok := n.(*ast.SliceExpr); ok && c.Text(se.X) == x {
				hits = append(hits, se)
			}
			return true
		})
		if k >= len(hits) {
			return "", fmt.Errorf("only %d slice expression(s) of %s, wanted #%d", len(hits), x, k)
		}
		var e ast.Expr
		if which == "lo" {
			e = hits[k].Low
		} else {
			e = hits[k].High
		}
		if e == nil {
			return "", fmt.Errorf("slice expression %s has no %s bound", c.Pretty(hits[k]), which)
		}
		env := &trEnv{c: c, s: s, locals: map[string]string{}, consts: map[string]string{}}
		t, _, err := env.tr(e)
		if err != nil {
			return "", err
		}
		return fmt.Sprintf("/-- %s bound of `%s` in `%s` -/\ndef %s%s : Int := %s\n", which, c.Pretty(hits[k]), s.Func, s.Name, paramsText(s.Params), t), nil
	}
}

func init() {
	const mod = "Comb"
	I := func(names ...string) []Param {
		var ps []Param
		for _, n := range names {
			ps = append(ps, Param{n, "Int"})
		}
		return ps
	}
	ex := func(pkg, fn, name, sel, typ string, ps []Param, vars map[string]string) Site {
		return Site{Module: mod, Pkg: pkg, Func: fn, Name: name, Kind: Expr, Sel: sel, Type: typ, Params: ps, Vars: vars}
	}
	pres := func(pkg, fn, name, sel, text string) Site {
		return Site{Module: mod, Pkg: pkg, Func: fn, Name: name, Kind: Present, Sel: sel, Text: text}
	}
	cnt := func(pkg, fn, name, sel, text string) Site {
		return Site{Module: mod, Pkg: pkg, Func: fn, Name: name, Kind: Count, Sel: sel, Text: text}
	}
	const it = "iterator"
	const st = "stream"
	const xs = "xslices"
	lastVars := map[string]string{"i": "i", "n": "n", "idx": "idx"}

	register(
		// ---------------------------------------------------------------- iterator sources
		ex(it, "counterIterator.Next", "itCounterDone", "if[0].cond", "Bool", I("i", "n"), map[string]string{"iter.i": "i", "iter.n": "n"}),
		pres(it, "counterIterator.Next", "itCounterAdvances", "", "iter.i++"),
		ex(it, "repeatIterator.Next", "itRepeatDone", "if[0].cond", "Bool", I("x"), map[string]string{"iter.x": "x"}),
		pres(it, "repeatIterator.Next", "itRepeatDecrements", "", "iter.x--"),
		ex(it, "sliceIterator.Next", "itSliceDone", "if[0].cond", "Bool", I("len"), map[string]string{"len(iter.a)": "len"}),
		// peekable
		ex(it, "peekable.Next", "itPeekNextHas", "if[0].cond", "Bool", []Param{{"has", "Bool"}}, map[string]string{"iter.has": "has"}),
		pres(it, "peekable.Next", "itPeekNextClearsHas", "if[0].body", "iter.has = false"),
		ex(it, "peekable.Peek", "itPeekPulls", "if[0].cond", "Bool", []Param{{"has", "Bool"}}, map[string]string{"iter.has": "has"}),
		// Last
		ex(it, "Last", "itLastStoreGuard", "for[0].body/if[1].cond", "Bool", I("n"), lastVars),
		ex(it, "Last", "itLastSlot", "for[0].body/index[buf][0].idx", "Int", I("i", "n"), lastVars),
		pres(it, "Last", "itLastCounts", "for[0].body", "i++"),
		ex(it, "Last", "itLastShort", "if[2].cond", "Bool", I("i", "n"), lastVars),
		ex(it, "Last", "itLastRotGuard", "if[3].cond", "Bool", I("n"), lastVars),
		ex(it, "Last", "itLastIdx", "assign[idx][0].rhs", "Int", I("i", "n"), lastVars),
		Site{Module: mod, Pkg: it, Func: "Last", Name: "itLastSplit", Kind: Custom, Params: I("n", "idx"), Vars: lastVars, Custom: combSliceBound("out", 0, "lo")},
		// combinators
		ex(it, "chunkIterator.Next", "itChunkFull", "if[1].cond", "Bool", I("len", "size"), map[string]string{"len(chunk)": "len", "iter.chunkSize": "size"}),
		ex(it, "chunkIterator.Next", "itChunkFlush", "if[2].cond", "Bool", I("len"), map[string]string{"len(chunk)": "len"}),
		pres(it, "compactIterator.Next", "itCompactClearsFirst", "", "iter.first = false"),
		cnt(it, "compactIterator.Next", "itCompactSetsPrev", "", "iter.prev = item"),
		ex(it, "firstIterator.Next", "itFirstDone", "if[0].cond", "Bool", I("x"), map[string]string{"iter.x": "x"}),
		pres(it, "firstIterator.Next", "itFirstDecrements", "", "iter.x--"),
		pres(it, "flattenIterator.Next", "itFlattenClearsCurr", "", "iter.curr = nil"),
		pres(it, "joinIterator.Next", "itJoinAdvances", "", "iter.iters = iter.iters[1:]"),
		pres(it, "runsIterator.Next", "itRunsClearsCurr", "if[0].body", "iter.curr = nil"),
		pres(it, "runsInnerIterator.Next", "itRunsInnerDetaches", "if[1].body", "iter.parent = nil"),
		pres(it, "runsInnerIterator.Next", "itRunsInnerTracksPrev", "", "iter.prev = item"),
		pres(it, "whileIterator.Next", "itWhileSetsDone", "if[2].body", "iter.done = true"),
		ex(it, "whileIterator.Next", "itWhileDone", "if[0].cond", "Bool", []Param{{"done", "Bool"}}, map[string]string{"iter.done": "done"}),

		// ---------------------------------------------------------------- stream
		ex(st, "peekable.Next", "stPeekNextHas", "if[0].cond", "Bool", []Param{{"has", "Bool"}}, map[string]string{"s.has": "has"}),
		pres(st, "peekable.Next", "stPeekNextClearsHas", "if[0].body", "s.has = false"),
		ex(st, "peekable.Peek", "stPeekPulls", "if[0].cond", "Bool", []Param{{"has", "Bool"}}, map[string]string{"s.has": "has"}),
		pres(st, "peekable.Peek", "stPeekSetsHas", "if[0].body", "s.has = true"),
		// reducers: deferred Close (hypotheses of the *_closes theorems)
		pres(st, "Collect", "stCollectDefersClose", "", "defer s.Close()"),
		pres(st, "Last", "stLastDefersClose", "", "defer s.Close()"),
		pres(st, "One", "stOneDefersClose", "", "defer s.Close()"),
		pres(st, "Reduce", "stReduceDefersClose", "", "defer s.Close()"),
		pres("xmath/xrand", "rSampleStream", "sampleStreamDefersClose", "", "defer s.Close()"),
		// Last
		ex(st, "Last", "stLastStoreGuard", "for[0].body/if[2].cond", "Bool", I("n"), lastVars),
		ex(st, "Last", "stLastSlot", "for[0].body/index[buf][0].idx", "Int", I("i", "n"), lastVars),
		pres(st, "Last", "stLastCounts", "for[0].body", "i++"),
		ex(st, "Last", "stLastShort", "if[3].cond", "Bool", I("i", "n"), lastVars),
		ex(st, "Last", "stLastRotGuard", "if[4].cond", "Bool", I("n"), lastVars),
		ex(st, "Last", "stLastIdx", "assign[idx][0].rhs", "Int", I("i", "n"), lastVars),
		Site{Module: mod, Pkg: st, Func: "Last", Name: "stLastSplit", Kind: Custom, Params: I("n", "idx"), Vars: lastVars, Custom: combSliceBound("out", 0, "lo")},
		// combinators: flags
		ex(st, "chunkStream.Next", "stChunkFull", "if[2].cond", "Bool", I("len", "size"), map[string]string{"len(s.chunk)": "len", "s.chunkSize": "size"}),
		ex(st, "chunkStream.Next", "stChunkFlush", "if[3].cond", "Bool", I("len"), map[string]string{"len(s.chunk)": "len"}),
		pres(st, "compactStream.Next", "stCompactClearsFirst", "", "s.first = false"),
		cnt(st, "compactStream.Next", "stCompactSetsPrev", "", "s.prev = item"),
		ex(st, "firstStream.Next", "stFirstDone", "if[0].cond", "Bool", I("x"), map[string]string{"s.x": "x"}),
		pres(st, "firstStream.Next", "stFirstDecrements", "", "s.x--"),
		pres(st, "flattenStream.Next", "stFlattenClosesEnded", "", "s.curr.Close()"),
		pres(st, "flattenStream.Next", "stFlattenClearsCurr", "", "s.curr = nil"),
		cnt(st, "flattenSlicesStream.Next", "stFlattenSlicesWritesInput", "", "s.buffer[0] = zero"),
		pres(st, "joinStream.Next", "stJoinClosesEnded", "", "s.remaining[0].Close()"),
		pres(st, "joinStream.Next", "stJoinAdvances", "", "s.remaining = s.remaining[1:]"),
		pres(st, "runsStream.Next", "stRunsClosesCurr", "if[0].body", "s.curr.Close()"),
		pres(st, "runsStream.Next", "stRunsClearsCurr", "if[0].body", "s.curr = nil"),
		pres(st, "runsInnerStream.Close", "stRunsInnerCloseDetaches", "", "s.parent = nil"),
		pres(st, "runsInnerStream.Next", "stRunsInnerTracksPrev", "", "s.prev = item"),
		ex(st, "whileStream.Next", "stWhileDone", "if[0].cond", "Bool", []Param{{"done", "Bool"}}, map[string]string{"s.done": "done"}),
		ex(st, "whileStream.Next", "stWhilePulls", "if[1].cond", "Bool", []Param{{"has", "Bool"}}, map[string]string{"s.has": "has"}),
		pres(st, "whileStream.Next", "stWhileSetsHas", "if[1].body", "s.has = true"),
		pres(st, "whileStream.Next", "stWhileSetsDone", "", "s.done = true"),
		pres(st, "whileStream.Next", "stWhileClearsHas", "", "s.has = false"),
		// Close forwarding of every wrapper
		pres(st, "peekable.Close", "stPeekCloseForwards", "", "s.inner.Close()"),
		pres(st, "chunkStream.Close", "stChunkCloseForwards", "", "s.inner.Close()"),
		pres(st, "compactStream.Close", "stCompactCloseForwards", "", "s.inner.Close()"),
		pres(st, "filterStream.Close", "stFilterCloseForwards", "", "s.inner.Close()"),
		pres(st, "firstStream.Close", "stFirstCloseForwards", "", "s.inner.Close()"),
		pres(st, "flattenStream.Close", "stFlattenCloseCurr", "if[0].body", "s.curr.Close()"),
		pres(st, "flattenStream.Close", "stFlattenCloseForwards", "", "s.inner.Close()"),
		pres(st, "flattenSlicesStream.Close", "stFlattenSlicesCloseForwards", "", "s.inner.Close()"),
		pres(st, "joinStream.Close", "stJoinCloseForwards", "range[0].body", "s.remaining[i].Close()"),
		pres(st, "mapStream.Close", "stMapCloseForwards", "", "s.inner.Close()"),
		pres(st, "runsStream.Close", "stRunsCloseForwards", "", "s.inner.Close()"),
		pres(st, "whileStream.Close", "stWhileCloseForwards", "", "s.inner.Close()"),

		// ---------------------------------------------------------------- xslices
		ex(xs, "Chunk", "xsChunkPanics", "if[0].cond", "Bool", I("size"), map[string]string{"chunkSize": "size"}),
		ex(xs, "Chunk", "xsChunkCount", "call[make][0].arg[1]", "Int", I("len", "size"), map[string]string{"len(s)": "len", "chunkSize": "size"}),
		ex(xs, "Chunk", "xsChunkStart", "assign[start][0].rhs", "Int", I("i", "size"), map[string]string{"i": "i", "chunkSize": "size"}),
		ex(xs, "Chunk", "xsChunkEnd", "assign[end][0].rhs", "Int", I("i", "size"), map[string]string{"i": "i", "chunkSize": "size"}),
		ex(xs, "Chunk", "xsChunkClamp", "range[0].body/if[0].cond", "Bool", I("e", "len"), map[string]string{"end": "e", "len(s)": "len"}),
		ex(xs, "Runs", "xsRunsStart0", "assign[start][0].rhs", "Int", nil, nil),
		ex(xs, "Runs", "xsRunsEnd0", "assign[end][0].rhs", "Int", nil, nil),
		ex(xs, "Runs", "xsRunsNonEmpty", "if[0].cond", "Bool", I("len"), map[string]string{"len(s)": "len"}),
		ex(xs, "Runs", "xsRunsEnd1", "if[0].body/assign[end][0].rhs", "Int", nil, nil),
		ex(xs, "Runs", "xsRunsI0", "assign[i][0].rhs", "Int", nil, nil),
		ex(xs, "Runs", "xsRunsLoops", "for[0].cond", "Bool", I("i", "len"), map[string]string{"i": "i", "len(s)": "len"}),
		ex(xs, "Runs", "xsRunsCmpLeft", "for[0].body/index[s][0].idx", "Int", I("i"), map[string]string{"i": "i"}),
		ex(xs, "Runs", "xsRunsCmpRight", "for[0].body/index[s][1].idx", "Int", I("i"), map[string]string{"i": "i"}),
		ex(xs, "Runs", "xsRunsExtend", "for[0].body/if[0].body/assign[end][0].rhs", "Int", I("i"), map[string]string{"i": "i"}),
		ex(xs, "Runs", "xsRunsNewStart", "for[0].body/if[0].else/assign[start][0].rhs", "Int", I("i"), map[string]string{"i": "i"}),
		ex(xs, "Runs", "xsRunsNewEnd", "for[0].body/if[0].else/assign[end][0].rhs", "Int", I("i"), map[string]string{"i": "i"}),
		ex(xs, "Runs", "xsRunsFinal", "if[2].cond", "Bool", I("e"), map[string]string{"end": "e"}),
	)
}
