package main

import (
	"fmt"
	"go/ast"
)

// internal/heap + container/xheap -> Juniper.Gen.Heap. Consumed by Model/Heap.lean, Model/PQ.lean
// (C05, heap half of C15).

// unconditional emits a Bool that is true iff the statement `text` is a direct child of the
// function body (not nested in an if/for) and no statement before it contains a return: i.e. it is
// executed on every path on which the function completes normally ("presence and position").
func unconditional(mod, pkg, fn, name, text string) Site {
	return Site{Module: mod, Pkg: pkg, Func: fn, Name: name, Kind: Custom, Text: text,
		Custom: func(c *Ctx, s *Site) (string, error) {
			fd, err := c.FindFunc(s.Pkg, s.Func)
			if err != nil {
				return "", err
			}
			want := stripSpace(s.Text)
			found := 0
			early := false
			for _, st := range fd.Body.List {
				if c.Text(st) == want {
					if !early {
						found++
					}
					continue
				}
				ast.Inspect(st, func(n ast.Node) bool {
					if _, ok := n.(*ast.FuncLit); ok {
						return false
					}
					if _, ok := n.(*ast.ReturnStmt); ok && found == 0 {
						early = true
					}
					return true
				})
			}
			return fmt.Sprintf("/-- `%s` is executed unconditionally (top level of `%s`, no return before it) -/\ndef %s : Bool := %v\n",
				s.Text, s.Func, s.Name, found > 0), nil
		}}
}

// compositeField emits the Int value of field `field` in the first composite literal of the function.
func compositeField(mod, pkg, fn, name, field string) Site {
	return Site{Module: mod, Pkg: pkg, Func: fn, Name: name, Kind: Custom,
		Custom: func(c *Ctx, s *Site) (string, error) {
			fd, err := c.FindFunc(s.Pkg, s.Func)
			if err != nil {
				return "", err
			}
			var val ast.Expr
			ast.Inspect(fd.Body, func(n ast.Node) bool {
				if cl, ok := n.(*ast.CompositeLit); ok && val == nil {
					for _, e := range cl.Elts {
						if kv, ok := e.(*ast.KeyValueExpr); ok && c.Text(kv.Key) == field {
							val = kv.Value
						}
					}
				}
				return true
			})
			if val == nil {
				return "", fmt.Errorf("no composite literal with field %s in %s", field, s.Func)
			}
			env := &trEnv{c: c, s: s, locals: map[string]string{}, consts: map[string]string{}}
			t, _, err := env.tr(val)
			if err != nil {
				return "", err
			}
			return fmt.Sprintf("/-- field `%s: %s` of the literal built in `%s` -/\ndef %s : Int := %s\n", field, c.Pretty(val), s.Func, s.Name, t), nil
		}}
}

func init() {
	const hp = "internal/heap"
	const xp = "container/xheap"
	const mod = "Heap"
	I := func(names ...string) []Param {
		var ps []Param
		for _, n := range names {
			ps = append(ps, Param{n, "Int"})
		}
		return ps
	}
	B := func(names ...string) []Param {
		var ps []Param
		for _, n := range names {
			ps = append(ps, Param{n, "Bool"})
		}
		return ps
	}
	e := func(pkg, fn, name, sel, typ string, ps []Param, vars map[string]string) Site {
		return Site{Module: mod, Pkg: pkg, Func: fn, Name: name, Kind: Expr, Sel: sel, Type: typ, Params: ps, Vars: vars,
			Calls: map[string]string{"parent": "parent", "children": "children"}}
	}
	p := func(pkg, fn, name, sel, text string) Site {
		return Site{Module: mod, Pkg: pkg, Func: fn, Name: name, Kind: Present, Sel: sel, Text: text}
	}
	// body: the whole body of fn consists of exactly the given statements (texts without spaces): a
	// forwarder with an extra statement, an added guard or a different callee flips the fact.
	body := func(pkg, fn, name string, want ...string) Site {
		return Site{Module: mod, Pkg: pkg, Func: fn, Name: name, Kind: Custom, Custom: allOf(stmtsAre(fn, "", want))}
	}
	register(
		// index arithmetic (whole functions)
		Site{Module: mod, Pkg: hp, Func: "parent", Name: "parent", Kind: Func, Params: I("i")},
		Site{Module: mod, Pkg: hp, Func: "children", Name: "children", Kind: Func, Params: I("i"), Type: "Int × Int"},

		// percolateUp: for i > 0 { p := parent(i); if h.less(i, p) { h.swap(i, p) }; i = p }
		e(hp, "Heap.percolateUp", "upGuard", "for[0].cond", "Bool", I("i"), map[string]string{"i": "i"}),
		e(hp, "Heap.percolateUp", "upParent", "assign[p][0].rhs", "Int", I("i"), map[string]string{"i": "i"}),
		e(hp, "Heap.percolateUp", "upSwapCond", "if[0].cond", "Bool", B("lt"), map[string]string{"h.less(i,p)": "lt"}),
		p(hp, "Heap.percolateUp", "upSwaps", "if[0].body", "h.swap(i, p)"),
		e(hp, "Heap.percolateUp", "upNext", "assign[i][0].rhs", "Int", I("p"), map[string]string{"p": "p"}),

		// percolateDown
		e(hp, "Heap.percolateDown", "downChildren", "assign[left][0].rhs", "Int × Int", I("i"), map[string]string{"i": "i"}),
		e(hp, "Heap.percolateDown", "downNoChild", "if[0].cond", "Bool", I("left", "len"), map[string]string{"left": "left", "len(h.a)": "len"}),
		e(hp, "Heap.percolateDown", "downOnlyLeft", "if[1].cond", "Bool", I("right", "len"), map[string]string{"right": "right", "len(h.a)": "len"}),
		e(hp, "Heap.percolateDown", "downLeftCond", "if[2].cond", "Bool", B("lt"), map[string]string{"h.less(left,i)": "lt"}),
		p(hp, "Heap.percolateDown", "downLeftSwaps", "if[2].body", "h.swap(left, i)"),
		e(hp, "Heap.percolateDown", "downLeftNext", "if[2].body/assign[i][0].rhs", "Int", I("left"), map[string]string{"left": "left"}),
		e(hp, "Heap.percolateDown", "downLeastInit", "assign[least][0].rhs", "Int", I("left", "right"), map[string]string{"left": "left", "right": "right"}),
		e(hp, "Heap.percolateDown", "downPickRight", "if[3].cond", "Bool", B("lt"), map[string]string{"h.less(right,left)": "lt"}),
		e(hp, "Heap.percolateDown", "downLeastAlt", "if[3].body/assign[least][0].rhs", "Int", I("left", "right"), map[string]string{"left": "left", "right": "right"}),
		e(hp, "Heap.percolateDown", "downSwapCond", "if[4].cond", "Bool", B("lt"), map[string]string{"h.less(least,i)": "lt"}),
		p(hp, "Heap.percolateDown", "downSwaps", "if[4].body", "h.swap(least, i)"),
		e(hp, "Heap.percolateDown", "downNext", "if[4].body/assign[i][0].rhs", "Int", I("least"), map[string]string{"least": "least"}),

		// swap / notifyIndexChanged / less
		p(hp, "Heap.swap", "swapExchanges", "", "(h.a)[i], (h.a)[j] = (h.a)[j], (h.a)[i]"),
		p(hp, "Heap.swap", "swapNotifiesI", "", "h.notifyIndexChanged(i)"),
		p(hp, "Heap.swap", "swapNotifiesJ", "", "h.notifyIndexChanged(j)"),
		p(hp, "Heap.notifyIndexChanged", "notifyReportsItemAndIndex", "", "h.indexChanged(h.a[i], i)"),
		e(hp, "Heap.less", "lessOrient", "return[0].result[0]", "Bool", B("lt"), map[string]string{"h.lessFn((h.a)[i],(h.a)[j])": "lt"}),

		// New: bottom-up heapify, then notify every index
		e(hp, "New", "newStart", "assign[i][0].rhs", "Int", I("n"), map[string]string{"len(initial)": "n"}),
		e(hp, "New", "newGuard", "for[0].cond", "Bool", I("i"), map[string]string{"i": "i"}),
		p(hp, "New", "newDecrements", "for[0].post", "i--"),
		p(hp, "New", "newSiftsDown", "for[0].body", "h.percolateDown(i)"),
		p(hp, "New", "newNotifiesAll", "range[0].body", "h.notifyIndexChanged(i)"),

		// Len / Peek
		e(hp, "Heap.Len", "lenVal", "return[0].result[0]", "Int", I("len"), map[string]string{"len(h.a)": "len"}),
		e(hp, "Heap.Peek", "peekIdx", "index[h.a][0].idx", "Int", nil, nil),
		e(hp, "Heap.Item", "itemIdx", "index[h.a][0].idx", "Int", I("i"), map[string]string{"i": "i"}),

		// Push
		p(hp, "Heap.Push", "pushAppends", "", "h.a = append(h.a, item)"),
		p(hp, "Heap.Push", "pushNotifies", "", "h.notifyIndexChanged(len(h.a) - 1)"),
		p(hp, "Heap.Push", "pushSiftsUp", "", "h.percolateUp(len(h.a) - 1)"),
		unconditional(mod, hp, "Heap.Push", "pushBumpsGen", "h.gen++"),

		// Pop
		e(hp, "Heap.Pop", "popIdx", "index[h.a][0].idx", "Int", nil, nil),
		p(hp, "Heap.Pop", "popMovesLast", "", "(h.a)[0] = (h.a)[len(h.a)-1]"),
		p(hp, "Heap.Pop", "popTruncates", "", "h.a = (h.a)[:len(h.a)-1]"),
		e(hp, "Heap.Pop", "popNotifyGuard", "if[0].cond", "Bool", I("len"), map[string]string{"len(h.a)": "len"}),
		p(hp, "Heap.Pop", "popNotifies", "if[0].body", "h.notifyIndexChanged(0)"),
		p(hp, "Heap.Pop", "popSiftsDown", "", "h.percolateDown(0)"),
		unconditional(mod, hp, "Heap.Pop", "popBumpsGen", "h.gen++"),

		// RemoveAt
		p(hp, "Heap.RemoveAt", "removeAtMovesLast", "", "h.a[i] = h.a[len(h.a)-1]"),
		p(hp, "Heap.RemoveAt", "removeAtTruncates", "", "h.a = h.a[:len(h.a)-1]"),
		e(hp, "Heap.RemoveAt", "removeAtGuard", "if[0].cond", "Bool", I("i", "len"), map[string]string{"i": "i", "len(h.a)": "len"}),
		p(hp, "Heap.RemoveAt", "removeAtNotifies", "if[0].body", "h.notifyIndexChanged(i)"),
		p(hp, "Heap.RemoveAt", "removeAtSiftsUp", "if[0].body", "h.percolateUp(i)"),
		p(hp, "Heap.RemoveAt", "removeAtSiftsDown", "if[0].body", "h.percolateDown(i)"),
		unconditional(mod, hp, "Heap.RemoveAt", "removeAtBumpsGen", "h.gen++"),

		// UpdateAt
		p(hp, "Heap.UpdateAt", "updateAtSets", "", "h.a[i] = item"),
		p(hp, "Heap.UpdateAt", "updateAtNotifies", "", "h.notifyIndexChanged(i)"),
		p(hp, "Heap.UpdateAt", "updateAtSiftsUp", "", "h.percolateUp(i)"),
		p(hp, "Heap.UpdateAt", "updateAtSiftsDown", "", "h.percolateDown(i)"),
		unconditional(mod, hp, "Heap.UpdateAt", "updateAtBumpsGen", "h.gen++"),

		// Grow / Shrink never touch gen (contents unchanged)
		p(hp, "Heap.Grow", "growBumpsGen", "", "h.gen++"),
		p(hp, "Heap.Shrink", "shrinkBumpsGen", "", "h.gen++"),

		// iterator
		compositeField(mod, hp, "Heap.Iterate", "iterInitGen", "gen"),
		e(hp, "heapIterator.Next", "iterFresh", "if[0].cond", "Bool", I("iterGen"), map[string]string{"iter.gen": "iterGen"}),
		p(hp, "heapIterator.Next", "iterCapturesGen", "if[0].body", "iter.gen = iter.h.gen"),
		p(hp, "heapIterator.Next", "iterCapturesSlice", "if[0].body", "iter.inner = iterator.Slice(iter.h.a)"),
		e(hp, "heapIterator.Next", "iterModified", "if[1].cond", "Bool", I("iterGen", "gen"), map[string]string{"iter.gen": "iterGen", "iter.h.gen": "gen"}),
		p(hp, "heapIterator.Next", "iterPanics", "if[1].body", "panic(ErrHeapModified)"),

		// xheap.Heap: constructors and forwarding
		e(xp, "New", "newLessWrap", "funclit[0]/return[0].result[0]", "Bool", B("lt"), map[string]string{"less(a,b)": "lt"}),
		e(xp, "NewCmp", "cmpLess", "funclit[0]/return[0].result[0]", "Bool", I("c"), map[string]string{"compare(a,b)": "c"}),
		// every wrapper method of xheap.Heap is exactly one forwarding statement
		body(xp, "Heap.Push", "xPushForwards", "h.inner.Push(item)"),
		body(xp, "Heap.Pop", "xPopForwards", "returnh.inner.Pop()"),
		body(xp, "Heap.Peek", "xPeekForwards", "returnh.inner.Peek()"),
		body(xp, "Heap.Len", "xLenForwards", "returnh.inner.Len()"),
		body(xp, "Heap.Grow", "xGrowForwards", "h.inner.Grow(n)"),
		body(xp, "Heap.Shrink", "xShrinkForwards", "h.inner.Shrink(n)"),
		body(xp, "Heap.Iterate", "xIterateForwards", "returnh.inner.Iterate()"),

		// PriorityQueue
		e(xp, "NewPriorityQueue", "dedupSkipCond", "range[0].body/if[0].cond", "Bool", B("ok"), map[string]string{"ok": "ok"}),
		p(xp, "NewPriorityQueue", "dedupSkips", "range[0].body/if[0].body", "continue"),
		p(xp, "NewPriorityQueue", "dedupMarks", "range[0].body", "h.m[kp.K] = -1"),
		p(xp, "NewPriorityQueue", "dedupKeeps", "range[0].body", "filtered = append(filtered, kp)"),
		p(xp, "NewPriorityQueue", "dedupUsesFiltered", "", "initial = filtered"),
		e(xp, "NewPriorityQueue", "pqLessWrap", "funclit[0]/return[0].result[0]", "Bool", B("lt"), map[string]string{"less(a.P,b.P)": "lt"}),
		p(xp, "NewPriorityQueue", "pqRecordsIndex", "funclit[1].body", "h.m[x.K] = i"),
		e(xp, "NewPriorityQueueCmp", "pqCmpLess", "funclit[0]/return[0].result[0]", "Bool", I("c"), map[string]string{"compare(a,b)": "c"}),
		e(xp, "PriorityQueue.Update", "updateExisting", "if[0].cond", "Bool", B("ok"), map[string]string{"ok": "ok"}),
		p(xp, "PriorityQueue.Update", "updateCallsUpdateAt", "if[0].body", "h.inner.UpdateAt(idx, KP[K, P]{k, p})"),
		p(xp, "PriorityQueue.Update", "updateCallsPush", "if[0].else", "h.inner.Push(KP[K, P]{k, p})"),
		p(xp, "PriorityQueue.Pop", "pqPopPops", "", "item := h.inner.Pop()"),
		p(xp, "PriorityQueue.Pop", "pqPopDeletes", "", "delete(h.m, item.K)"),
		p(xp, "PriorityQueue.Pop", "pqPopReturnsKey", "", "return item.K"),
		p(xp, "PriorityQueue.Peek", "pqPeekForwards", "", "return h.inner.Peek().K"),
		p(xp, "PriorityQueue.Len", "pqLenForwards", "", "return h.inner.Len()"),
		e(xp, "PriorityQueue.Contains", "containsRes", "return[0].result[0]", "Bool", B("ok"), map[string]string{"ok": "ok"}),
		e(xp, "PriorityQueue.Priority", "priorityPresent", "if[0].cond", "Bool", B("ok"), map[string]string{"ok": "ok"}),
		p(xp, "PriorityQueue.Priority", "priorityReadsItem", "if[0].body", "return h.inner.Item(idx).P"),
		e(xp, "PriorityQueue.Remove", "removeAbsent", "if[0].cond", "Bool", B("ok"), map[string]string{"ok": "ok"}),
		p(xp, "PriorityQueue.Remove", "removeAbsentReturns", "if[0].body", "return"),
		p(xp, "PriorityQueue.Remove", "removeCallsRemoveAt", "", "h.inner.RemoveAt(i)"),
		p(xp, "PriorityQueue.Remove", "removeDeletes", "", "delete(h.m, k)"),
		// PriorityQueue.Iterate is exactly: the inner heap's iterator, lazily mapped to the key field
		body(xp, "PriorityQueue.Iterate", "pqIterateMapsInnerToKey",
			"returniterator.Map(h.inner.Iterate(),func(kpKP[K,P])K{returnkp.K})"),
	)
}
