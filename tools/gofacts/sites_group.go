package main

// xsync.Group -> Juniper.Gen.Group. Consumed by Model/Group.lean (C17).
//
// Lock discipline of spawn / Stop / StopAndWait as statement-order facts, the capacity of the
// trigger channels, the select tables of the Trigger / Periodic / PeriodicOrTrigger loops and of the
// trigger functions, what every arm does before f is called, and the shape of the loops (context
// check first, f called synchronously last, no nested goroutine).

import (
	"fmt"
	"go/ast"
	"strings"
)

// groupOrder: the given statement texts occur in the flattened statement list at sel, each after
// the previous one. A text prefixed with "last:" is located at its last occurrence, the others at
// their first occurrence after the previous match.
func groupOrder(sel string, texts ...string) func(c *Ctx, s *Site) (string, error) {
	return func(c *Ctx, s *Site) (string, error) {
		fd, err := c.FindFunc(s.Pkg, s.Func)
		if err != nil {
			return "", err
		}
		var scope ast.Node = fd.Body
		if sel != "" {
			if scope, err = c.SelectPath(fd, sel); err != nil {
				return "", err
			}
		}
		l := c.stmtList(scope)
		for i := range l {
			l[i] = stripSpace(l[i])
		}
		ok := true
		pos := -1
		for _, want := range texts {
			last := strings.HasPrefix(want, "last:")
			w := stripSpace(strings.TrimPrefix(want, "last:"))
			found := -1
			for i := pos + 1; i < len(l); i++ {
				if l[i] == w || (strings.HasSuffix(w, "…") && strings.HasPrefix(l[i], strings.TrimSuffix(w, "…"))) {
					found = i
					if !last {
						break
					}
				}
			}
			if found < 0 {
				ok = false
				break
			}
			pos = found
		}
		return fmt.Sprintf("/-- in `%s` %s, in this order: %s -/\ndef %s : Bool := %v\n", s.Func, sel, strings.Join(texts, " ; "), s.Name, ok), nil
	}
}

// groupLoop: shape of a worker loop `for { if g.ctx.Err() != nil { return }; select {...}; ...; f(g.ctx) }`:
// emits <name>ChecksCtxFirst, <name>CallsFLast, <name>NoGo and <name>Infinite.
func groupLoop(sel string) func(c *Ctx, s *Site) (string, error) {
	return func(c *Ctx, s *Site) (string, error) {
		fd, err := c.FindFunc(s.Pkg, s.Func)
		if err != nil {
			return "", err
		}
		n, err := c.SelectPath(fd, sel)
		if err != nil {
			return "", err
		}
		loop, ok := n.(*ast.ForStmt)
		if !ok {
			return "", fmt.Errorf("selector %q is not a for statement", sel)
		}
		body := loop.Body.List
		first, last, nogo := false, false, true
		if len(body) > 0 {
			if is, ok := body[0].(*ast.IfStmt); ok && c.Text(is.Cond) == "g.ctx.Err()!=nil" && len(is.Body.List) == 1 && is.Else == nil {
				if r, ok := is.Body.List[0].(*ast.ReturnStmt); ok && len(r.Results) == 0 {
					first = true
				}
			}
			if es, ok := body[len(body)-1].(*ast.ExprStmt); ok && c.Text(es) == "f(g.ctx)" {
				last = true
			}
		}
		calls := 0
		ast.Inspect(loop, func(x ast.Node) bool {
			switch y := x.(type) {
			case *ast.GoStmt:
				nogo = false
			case *ast.CallExpr:
				if c.Text(y.Fun) == "f" {
					calls++
				}
			}
			return true
		})
		inf := loop.Cond == nil && loop.Init == nil && loop.Post == nil
		var b strings.Builder
		fmt.Fprintf(&b, "/-- loop of `%s`: first statement is `if g.ctx.Err() != nil { return }` -/\ndef %sChecksCtxFirst : Bool := %v\n", s.Func, s.Name, first)
		fmt.Fprintf(&b, "/-- loop of `%s`: last statement is the synchronous call `f(g.ctx)`, the only call of f -/\ndef %sCallsFLast : Bool := %v\n", s.Func, s.Name, last && calls == 1)
		fmt.Fprintf(&b, "/-- loop of `%s`: no go statement -/\ndef %sNoGo : Bool := %v\n", s.Func, s.Name, nogo)
		fmt.Fprintf(&b, "/-- loop of `%s`: `for {` without condition -/\ndef %sInfinite : Bool := %v\n", s.Func, s.Name, inf)
		return b.String(), nil
	}
}

func init() {
	const pkg = "xsync"
	const mod = "Group"
	sl := func(fn, name, sel string) Site {
		return Site{Module: mod, Pkg: pkg, Func: fn, Name: name, Kind: StmtList, Sel: sel}
	}
	sel := func(fn, name, s string) Site {
		return Site{Module: mod, Pkg: pkg, Func: fn, Name: name, Kind: Select, Sel: s}
	}
	cu := func(fn, name string, f func(c *Ctx, s *Site) (string, error)) Site {
		return Site{Module: mod, Pkg: pkg, Func: fn, Name: name, Kind: Custom, Custom: f}
	}
	capOf := func(fn, name string) Site {
		return Site{Module: mod, Pkg: pkg, Func: fn, Name: name, Kind: Expr, Sel: "call[make][0].arg[1]", Type: "Int"}
	}
	register(
		// spawn: RLock -> ctx check (bail: RUnlock, return) -> wg.Add(1) -> RUnlock -> go { f(); wg.Done() }
		sl("Group.spawn", "spawnStmts", ""),
		cu("Group.spawn", "spawnAddUnderRLock", groupOrder("", "g.m.RLock()", "if g.ctx.Err() != nil {", "}", "g.wg.Add(1)", "last:g.m.RUnlock()", "go func() {…")),
		sl("Group.spawn", "spawnBailStmts", "if[0].body"),
		sl("Group.spawn", "spawnGoStmts", "go[0].call/funclit[0].body"),
		Site{Module: mod, Pkg: pkg, Func: "Group.spawn", Name: "spawnAdds", Kind: Count, Text: "g.wg.Add(1)"},
		// Stop / StopAndWait
		sl("Group.Stop", "stopStmts", ""),
		sl("Group.StopAndWait", "stopAndWaitStmts", ""),
		// Do
		sl("Group.Do", "doStmts", ""),
		// Trigger
		capOf("Group.Trigger", "trigChanCap"),
		sel("Group.Trigger", "trigLoopSelect", "funclit[0].body/for[0].body/select[0]"),
		sl("Group.Trigger", "trigLoopArm0", "funclit[0].body/for[0].body/select[0]/case[0].body"),
		sl("Group.Trigger", "trigLoopArm1", "funclit[0].body/for[0].body/select[0]/case[1].body"),
		cu("Group.Trigger", "trigLoop", groupLoop("funclit[0].body/for[0]")),
		sl("Group.Trigger", "trigLoopStmts", "funclit[0].body"),
		sel("Group.Trigger", "trigFnSelect", "funclit[1].body/select[0]"),
		// Periodic
		sel("Group.Periodic", "perLoopSelect", "funclit[0].body/for[0].body/select[0]"),
		sl("Group.Periodic", "perLoopArm0", "funclit[0].body/for[0].body/select[0]/case[0].body"),
		sl("Group.Periodic", "perLoopArm1", "funclit[0].body/for[0].body/select[0]/case[1].body"),
		cu("Group.Periodic", "perLoop", groupLoop("funclit[0].body/for[0]")),
		cu("Group.Periodic", "perTimerBeforeLoop", groupOrder("funclit[0].body", "t := time.NewTimer(jitterDuration(interval, jitter))", "defer t.Stop()", "for {")),
		cu("Group.Periodic", "perResetsThenCalls", groupOrder("funclit[0].body/for[0].body", "select {…", "t.Reset(jitterDuration(interval, jitter))", "f(g.ctx)")),
		// PeriodicOrTrigger
		capOf("Group.PeriodicOrTrigger", "potChanCap"),
		sel("Group.PeriodicOrTrigger", "potLoopSelect", "funclit[0].body/for[0].body/select[0]"),
		sl("Group.PeriodicOrTrigger", "potLoopArm0", "funclit[0].body/for[0].body/select[0]/case[0].body"),
		sl("Group.PeriodicOrTrigger", "potLoopArm1", "funclit[0].body/for[0].body/select[0]/case[1].body"),
		sl("Group.PeriodicOrTrigger", "potLoopArm2", "funclit[0].body/for[0].body/select[0]/case[2].body"),
		cu("Group.PeriodicOrTrigger", "potLoop", groupLoop("funclit[0].body/for[0]")),
		cu("Group.PeriodicOrTrigger", "potTimerBeforeLoop", groupOrder("funclit[0].body", "t := time.NewTimer(jitterDuration(interval, jitter))", "defer t.Stop()", "for {")),
		sel("Group.PeriodicOrTrigger", "potFnSelect", "funclit[1].body/select[0]"),
		// jitterDuration: d + Duration(float64(jitter) * (rand.Float64()*2 - 1)), an offset in [-jitter, jitter]
		sl("jitterDuration", "jitterDurationStmts", ""),
	)
}
