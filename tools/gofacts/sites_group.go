package main

// xsync.Group -> Juniper.Gen.Group. Consumed by Model/Group.lean (C17).
//
// Lock discipline of spawn / Stop / StopAndWait as statement-order facts, the capacity of the
// trigger channels, the select tables of the Trigger / Periodic / PeriodicOrTrigger loops and of the
// trigger functions, what every arm does before f is called, and the shape of the loops (context
// check first, f called synchronously last, no nested goroutine).

import (
	"fmt"
	"go/ast"
	"sort"
	"strconv"
	"strings"
)

// structWiring renders what the statement-level facts of a component take for granted: the field
// list of its struct type (name, type text), the import path behind every package qualifier used in
// a field type (so that `sync.RWMutex` is the standard library's), the other type declarations of
// the package whose name occurs in a field type (a local `type rwm struct{}` standing in for a lock
// shows up here and as the field's type), and the receiver of every listed method (`*T` vs `T`: a
// value receiver locks a copy). Emits <prefix>Fields, <prefix>Imports, <prefix>LocalTypes,
// <prefix>Receivers.
func structWiring(typeName, prefix string, methods ...string) func(c *Ctx, s *Site) (string, error) {
	return func(c *Ctx, s *Site) (string, error) {
		files, err := c.files(s.Pkg)
		if err != nil {
			return "", err
		}
		var st *ast.StructType
		var inFile *ast.File
		localTypes := map[string]bool{}
		for _, f := range files {
			for _, d := range f.Decls {
				gd, ok := d.(*ast.GenDecl)
				if !ok {
					continue
				}
				for _, sp := range gd.Specs {
					ts, ok := sp.(*ast.TypeSpec)
					if !ok {
						continue
					}
					localTypes[ts.Name.Name] = true
					if ts.Name.Name == typeName {
						if x, ok := ts.Type.(*ast.StructType); ok && st == nil {
							st, inFile = x, f
						} else {
							return "", fmt.Errorf("type %s is declared twice or is not a struct", typeName)
						}
					}
				}
			}
		}
		if st == nil {
			return "", fmt.Errorf("struct type %s not found in %s", typeName, s.Pkg)
		}
		q := func(x string) string { return strconv.Quote(x) }
		var fields, imports, locals, recvs []string
		quals := map[string]bool{}
		usedLocal := map[string]bool{}
		for _, fl := range st.Fields.List {
			ty := c.Pretty(fl.Type)
			ast.Inspect(fl.Type, func(n ast.Node) bool {
				switch x := n.(type) {
				case *ast.SelectorExpr:
					if id, ok := x.X.(*ast.Ident); ok {
						quals[id.Name] = true
					}
					return false
				case *ast.Ident:
					if localTypes[x.Name] {
						usedLocal[x.Name] = true
					}
				}
				return true
			})
			if len(fl.Names) == 0 {
				fields = append(fields, fmt.Sprintf("(%s, %s)", q("<embedded>"), q(ty)))
			}
			for _, n := range fl.Names {
				fields = append(fields, fmt.Sprintf("(%s, %s)", q(n.Name), q(ty)))
			}
		}
		var qs []string
		for k := range quals {
			qs = append(qs, k)
		}
		sort.Strings(qs)
		for _, k := range qs {
			path := "<not imported>"
			for _, im := range inFile.Imports {
				p, _ := strconv.Unquote(im.Path.Value)
				name := p[strings.LastIndex(p, "/")+1:]
				if im.Name != nil {
					name = im.Name.Name
				}
				if name == k {
					path = p
				}
			}
			imports = append(imports, fmt.Sprintf("(%s, %s)", q(k), q(path)))
		}
		var ls []string
		for k := range usedLocal {
			ls = append(ls, k)
		}
		sort.Strings(ls)
		for _, k := range ls {
			locals = append(locals, q(k))
		}
		for _, m := range methods {
			fd, err := c.FindFunc(s.Pkg, typeName+"."+m)
			if err != nil {
				return "", err
			}
			recvs = append(recvs, fmt.Sprintf("(%s, %s)", q(m), q(c.Pretty(fd.Recv.List[0].Type))))
		}
		var b strings.Builder
		fmt.Fprintf(&b, "/-- fields of `type %s struct` (name, type as written) -/\ndef %sFields : List (String × String) := [%s]\n", typeName, prefix, strings.Join(fields, ", "))
		fmt.Fprintf(&b, "/-- import path behind every package qualifier used in a field type of `%s` -/\ndef %sImports : List (String × String) := [%s]\n", typeName, prefix, strings.Join(imports, ", "))
		fmt.Fprintf(&b, "/-- types declared in package %s itself that occur in a field type of `%s` -/\ndef %sLocalTypes : List String := [%s]\n", s.Pkg, typeName, prefix, strings.Join(locals, ", "))
		fmt.Fprintf(&b, "/-- receiver type of the methods of `%s` the model mirrors -/\ndef %sReceivers : List (String × String) := [%s]\n", typeName, prefix, strings.Join(recvs, ", "))
		return b.String(), nil
	}
}

// groupOrder: the given statement texts occur in the flattened statement list at sel, each after
// the previous one. A text prefixed with "last:" is located at its last occurrence, the others at
// their first occurrence after the previous match.
func groupOrder(sel string, texts ...string) func(c *Ctx, s *Site) (string, error) {
	return func(c *Ctx, s *Site) (string, error) {
		fd, err := c.FindFunc(s.Pkg, s.Func)
		if err != nil {
			return "", err
		}
		var scope ast.Node = fd.Body
		if sel != "" {
			if scope, err = c.SelectPath(fd, sel); err != nil {
				return "", err
			}
		}
		l := c.stmtList(scope)
		for i := range l {
			l[i] = stripSpace(l[i])
		}
		ok := true
		pos := -1
		for _, want := range texts {
			last := strings.HasPrefix(want, "last:")
			w := stripSpace(strings.TrimPrefix(want, "last:"))
			found := -1
			for i := pos + 1; i < len(l); i++ {
				if l[i] == w || (strings.HasSuffix(w, "…") && strings.HasPrefix(l[i], strings.TrimSuffix(w, "…"))) {
					found = i
					if !last {
						break
					}
				}
			}
			if found < 0 {
				ok = false
				break
			}
			pos = found
		}
		return fmt.Sprintf("/-- in `%s` %s, in this order: %s -/\ndef %s : Bool := %v\n", s.Func, sel, strings.Join(texts, " ; "), s.Name, ok), nil
	}
}

// groupLoop: shape of a worker loop `for { if g.ctx.Err() != nil { return }; select {...}; ...; f(g.ctx) }`:
// emits <name>ChecksCtxFirst, <name>CallsFLast, <name>NoGo and <name>Infinite.
func groupLoop(sel string) func(c *Ctx, s *Site) (string, error) {
	return func(c *Ctx, s *Site) (string, error) {
		fd, err := c.FindFunc(s.Pkg, s.Func)
		if err != nil {
			return "", err
		}
		n, err := c.SelectPath(fd, sel)
		if err != nil {
			return "", err
		}
		loop, ok := n.(*ast.ForStmt)
		if !ok {
			return "", fmt.Errorf("selector %q is not a for statement", sel)
		}
		body := loop.Body.List
		first, last, nogo := false, false, true
		if len(body) > 0 {
			if is, ok := body[0].(*ast.IfStmt); ok && c.Text(is.Cond) == "g.ctx.Err()!=nil" && len(is.Body.List) == 1 && is.Else == nil {
				if r, ok := is.Body.List[0].(*ast.ReturnStmt); ok && len(r.Results) == 0 {
					first = true
				}
			}
			if es, ok := body[len(body)-1].(*ast.ExprStmt); ok && c.Text(es) == "f(g.ctx)" {
				last = true
			}
		}
		calls := 0
		ast.Inspect(loop, func(x ast.Node) bool {
			switch y := x.(type) {
			case *ast.GoStmt:
				nogo = false
			case *ast.CallExpr:
				if c.Text(y.Fun) == "f" {
					calls++
				}
			}
			return true
		})
		inf := loop.Cond == nil && loop.Init == nil && loop.Post == nil
		var b strings.Builder
		fmt.Fprintf(&b, "/-- loop of `%s`: first statement is `if g.ctx.Err() != nil { return }` -/\ndef %sChecksCtxFirst : Bool := %v\n", s.Func, s.Name, first)
		fmt.Fprintf(&b, "/-- loop of `%s`: last statement is the synchronous call `f(g.ctx)`, the only call of f -/\ndef %sCallsFLast : Bool := %v\n", s.Func, s.Name, last && calls == 1)
		fmt.Fprintf(&b, "/-- loop of `%s`: no go statement -/\ndef %sNoGo : Bool := %v\n", s.Func, s.Name, nogo)
		fmt.Fprintf(&b, "/-- loop of `%s`: `for {` without condition -/\ndef %sInfinite : Bool := %v\n", s.Func, s.Name, inf)
		return b.String(), nil
	}
}

func init() {
	const pkg = "xsync"
	const mod = "Group"
	sl := func(fn, name, sel string) Site {
		return Site{Module: mod, Pkg: pkg, Func: fn, Name: name, Kind: StmtList, Sel: sel}
	}
	sel := func(fn, name, s string) Site {
		return Site{Module: mod, Pkg: pkg, Func: fn, Name: name, Kind: Select, Sel: s}
	}
	cu := func(fn, name string, f func(c *Ctx, s *Site) (string, error)) Site {
		return Site{Module: mod, Pkg: pkg, Func: fn, Name: name, Kind: Custom, Custom: f}
	}
	capOf := func(fn, name string) Site {
		return Site{Module: mod, Pkg: pkg, Func: fn, Name: name, Kind: Expr, Sel: "call[make][0].arg[1]", Type: "Int"}
	}
	register(
		// what `g.m`, `g.wg`, `g.ctx`, `g.cancel` are, how NewGroup wires them, pointer receivers
		cu("", "groupWiring", structWiring("Group", "group", "spawn", "Do", "Stop", "StopAndWait", "Trigger", "Periodic", "PeriodicOrTrigger")),
		sl("NewGroup", "newGroupStmts", ""),
		// spawn: RLock -> ctx check (bail: RUnlock, return) -> wg.Add(1) -> RUnlock -> go { f(); wg.Done() }
		sl("Group.spawn", "spawnStmts", ""),
		cu("Group.spawn", "spawnAddUnderRLock", groupOrder("", "g.m.RLock()", "if g.ctx.Err() != nil {", "}", "g.wg.Add(1)", "last:g.m.RUnlock()", "go func() {…")),
		sl("Group.spawn", "spawnBailStmts", "if[0].body"),
		sl("Group.spawn", "spawnGoStmts", "go[0].call/funclit[0].body"),
		Site{Module: mod, Pkg: pkg, Func: "Group.spawn", Name: "spawnAdds", Kind: Count, Text: "g.wg.Add(1)"},
		// Stop / StopAndWait
		sl("Group.Stop", "stopStmts", ""),
		sl("Group.StopAndWait", "stopAndWaitStmts", ""),
		// Do
		sl("Group.Do", "doStmts", ""),
		// Trigger
		capOf("Group.Trigger", "trigChanCap"),
		sel("Group.Trigger", "trigLoopSelect", "funclit[0].body/for[0].body/select[0]"),
		sl("Group.Trigger", "trigLoopArm0", "funclit[0].body/for[0].body/select[0]/case[0].body"),
		sl("Group.Trigger", "trigLoopArm1", "funclit[0].body/for[0].body/select[0]/case[1].body"),
		cu("Group.Trigger", "trigLoop", groupLoop("funclit[0].body/for[0]")),
		sl("Group.Trigger", "trigLoopStmts", "funclit[0].body"),
		sel("Group.Trigger", "trigFnSelect", "funclit[1].body/select[0]"),
		// Periodic
		sel("Group.Periodic", "perLoopSelect", "funclit[0].body/for[0].body/select[0]"),
		sl("Group.Periodic", "perLoopArm0", "funclit[0].body/for[0].body/select[0]/case[0].body"),
		sl("Group.Periodic", "perLoopArm1", "funclit[0].body/for[0].body/select[0]/case[1].body"),
		cu("Group.Periodic", "perLoop", groupLoop("funclit[0].body/for[0]")),
		cu("Group.Periodic", "perTimerBeforeLoop", groupOrder("funclit[0].body", "t := time.NewTimer(jitterDuration(interval, jitter))", "defer t.Stop()", "for {")),
		cu("Group.Periodic", "perResetsThenCalls", groupOrder("funclit[0].body/for[0].body", "select {…", "t.Reset(jitterDuration(interval, jitter))", "f(g.ctx)")),
		// PeriodicOrTrigger
		capOf("Group.PeriodicOrTrigger", "potChanCap"),
		sel("Group.PeriodicOrTrigger", "potLoopSelect", "funclit[0].body/for[0].body/select[0]"),
		sl("Group.PeriodicOrTrigger", "potLoopArm0", "funclit[0].body/for[0].body/select[0]/case[0].body"),
		sl("Group.PeriodicOrTrigger", "potLoopArm1", "funclit[0].body/for[0].body/select[0]/case[1].body"),
		sl("Group.PeriodicOrTrigger", "potLoopArm2", "funclit[0].body/for[0].body/select[0]/case[2].body"),
		cu("Group.PeriodicOrTrigger", "potLoop", groupLoop("funclit[0].body/for[0]")),
		cu("Group.PeriodicOrTrigger", "potTimerBeforeLoop", groupOrder("funclit[0].body", "t := time.NewTimer(jitterDuration(interval, jitter))", "defer t.Stop()", "for {")),
		sel("Group.PeriodicOrTrigger", "potFnSelect", "funclit[1].body/select[0]"),
		// jitterDuration: d + Duration(float64(jitter) * (rand.Float64()*2 - 1)), an offset in [-jitter, jitter]
		sl("jitterDuration", "jitterDurationStmts", ""),
	)
}
