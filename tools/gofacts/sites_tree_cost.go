package main

// container/tree, comparison counting -> Juniper.Gen.TreeAccess (audit C03-F2).
// Consumed by Model/BTreeCost.lean: how many comparator calls one iteration of searchNode's loop makes
// and how many searchNode calls one level of Get / Contains makes are *read from the source* (call
// expressions are counted in the AST: statement text, `for` init / post clauses and function literals
// included), and the tie lemma `cost_skeleton` (Proofs/TreeCost.lean) states that nothing compares
// outside those loops and that each function has exactly one loop. An extra scan of the keys in
// searchNode, a second searchNode call per level, a comparison in a `for` post clause ... change one of
// these numbers, the cost model follows (or the tie lemma stops compiling) and `search_cost` breaks.

import (
	"fmt"
	"go/ast"
)

// loops of a function body: every for / range statement, function literals included.
func loopsOf(body ast.Node) []ast.Node {
	var out []ast.Node
	ast.Inspect(body, func(n ast.Node) bool {
		switch n.(type) {
		case *ast.ForStmt, *ast.RangeStmt:
			out = append(out, n)
		}
		return true
	})
	return out
}

// number of call expressions whose callee prints as `callee` (spaces removed) inside scope.
func (c *Ctx) callsIn(scope ast.Node, callee string) int {
	n := 0
	ast.Inspect(scope, func(x ast.Node) bool {
		if ce, ok := x.(*ast.CallExpr); ok && c.Text(ce.Fun) == callee {
			n++
		}
		return true
	})
	return n
}

// loopCount: number of for / range statements of fn.
func loopCount(fn string) func(c *Ctx, s *Site) (string, error) {
	return func(c *Ctx, s *Site) (string, error) {
		fd, err := c.FindFunc(s.Pkg, fn)
		if err != nil {
			return "", err
		}
		return fmt.Sprintf("/-- number of `for` / `range` statements in `%s` (function literals included) -/\ndef %s : Nat := %d\n",
			fn, s.Name, len(loopsOf(fd.Body))), nil
	}
}

// callCount: number of calls of callee in fn; inLoop: only inside its first loop (init, condition, post
// clause and body), 0 if the function has no loop.
func callCount(fn, callee string, inLoop bool) func(c *Ctx, s *Site) (string, error) {
	return func(c *Ctx, s *Site) (string, error) {
		fd, err := c.FindFunc(s.Pkg, fn)
		if err != nil {
			return "", err
		}
		var scope ast.Node = fd.Body
		where := "anywhere in"
		if inLoop {
			where = "inside the first loop of"
			ls := loopsOf(fd.Body)
			if len(ls) == 0 {
				return fmt.Sprintf("/-- calls of `%s` %s `%s`: the function has no loop -/\ndef %s : Nat := 0\n", callee, where, fn, s.Name), nil
			}
			scope = ls[0]
		}
		return fmt.Sprintf("/-- number of call expressions `%s(…)` %s `%s` -/\ndef %s : Nat := %d\n",
			callee, where, fn, s.Name, c.callsIn(scope, callee)), nil
	}
}

func init() {
	const pkg = "container/tree"
	const mod = "TreeAccess"
	cu := func(fn, name string, f func(c *Ctx, s *Site) (string, error)) Site {
		return Site{Module: mod, Pkg: pkg, Func: fn, Name: name, Kind: Custom, Custom: f}
	}
	register(
		// searchNode: one loop, one comparison per iteration, none outside
		cu("btree.searchNode", "searchLoops", loopCount("btree.searchNode")),
		cu("btree.searchNode", "searchLoopCompares", callCount("btree.searchNode", "t.compare", true)),
		cu("btree.searchNode", "searchCompares", callCount("btree.searchNode", "t.compare", false)),
		// Get / Contains: one loop (one iteration per level), one searchNode call per iteration, no
		// searchNode call outside it and no direct comparison
		cu("btree.Get", "getLoops", loopCount("btree.Get")),
		cu("btree.Get", "getLoopSearches", callCount("btree.Get", "t.searchNode", true)),
		cu("btree.Get", "getSearches", callCount("btree.Get", "t.searchNode", false)),
		cu("btree.Get", "getCompares", callCount("btree.Get", "t.compare", false)),
		cu("btree.Contains", "containsLoops", loopCount("btree.Contains")),
		cu("btree.Contains", "containsLoopSearches", callCount("btree.Contains", "t.searchNode", true)),
		cu("btree.Contains", "containsSearches", callCount("btree.Contains", "t.searchNode", false)),
		cu("btree.Contains", "containsCompares", callCount("btree.Contains", "t.compare", false)),
	)
}
