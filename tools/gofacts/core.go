// gofacts: re-extracts facts from /repo's Go source and emits them as Lean definitions.
//
// It is deliberately tiny: a declarative site table (sites_*.go) names a function, a structural
// selector inside it and the Lean definition to emit. Anything outside the accepted grammar is a
// translation failure which is reported (facts.json) and leaves the Lean definition out, so that
// every proof that used it stops compiling: a site that cannot be found or translated is a broken
// tie, never silently skipped.
package main

import (
	"bytes"
	"crypto/sha256"
	"encoding/hex"
	"fmt"
	"go/ast"
	"go/parser"
	"go/printer"
	"go/token"
	"os"
	"path/filepath"
	"sort"
	"strconv"
	"strings"
)

type Kind int

const (
	Expr     Kind = iota // one expression -> def name (params) : Type := term
	Func                 // whole tiny function (let / if / return / panic) -> def
	Select               // select statement -> List Arm
	Present              // Bool: scope contains a statement with the given text
	Count                // Nat: number of statements in scope with the given text
	StmtList             // List String: printed simple statements of the scope, in order
	Const                // package-level const -> def name : Int := term
	Custom               // callback
)

type Param struct{ Name, Type string }

// Site describes one extracted fact.
type Site struct {
	Module string // Lean module (file) under Juniper/Generated, e.g. "Deque"
	Pkg    string // directory relative to the repo root
	Func   string // "Recv.Method", "func" (ignored for Const)
	Name   string // Lean definition name
	Kind   Kind
	Sel    string            // selector path, see selectPath
	Text   string            // Present/Count: statement text to look for (gofmt-normalised, spaces removed)
	Vars   map[string]string // Go expression text (spaces removed) -> Lean term
	Calls  map[string]string // Go callee text -> Lean function
	Params []Param           // Lean parameters, in order
	Type   string            // result type: "Int" (default) or "Bool"
	Custom func(c *Ctx, s *Site) (string, error)
	// Ops optionally overrides rendering of operators for Func/Expr sites, e.g. fixed-width types.
	Ops *Ops
}

type Ops struct {
	Lit  func(n string) string
	Neg  func(a string) string
	Bin  func(op, a, b string) (string, bool) // arithmetic
	Cmp  func(op, a, b string) (string, bool) // comparison -> Bool term
	Zero string
}

var allSites []Site

func register(s ...Site) { allSites = append(allSites, s...) }

// Ctx caches parsed packages.
type Ctx struct {
	Repo string
	fset *token.FileSet
	pkgs map[string][]*ast.File
	// pins (pins.go): the module whose sites are being emitted, and every function FindFunc found for it
	curMod  string
	touched map[string]map[pinRec]bool
}

func newCtx(repo string) *Ctx {
	return &Ctx{Repo: repo, fset: token.NewFileSet(), pkgs: map[string][]*ast.File{}}
}

// files parses the non-test Go files of a package directory that the present toolchain builds
// (files constrained to old Go versions are skipped: //go:build !go1.xx).
func (c *Ctx) files(pkg string) ([]*ast.File, error) {
	if f, ok := c.pkgs[pkg]; ok {
		return f, nil
	}
	dir := filepath.Join(c.Repo, pkg)
	ents, err := os.ReadDir(dir)
	if err != nil {
		return nil, err
	}
	var out []*ast.File
	for _, e := range ents {
		n := e.Name()
		if !strings.HasSuffix(n, ".go") || strings.HasSuffix(n, "_test.go") {
			continue
		}
		src, err := os.ReadFile(filepath.Join(dir, n))
		if err != nil {
			return nil, err
		}
		if skipByBuildTag(string(src)) {
			continue
		}
		// object resolution is on: pins.go renames locals scope-aware through Ident.Obj
		f, err := parser.ParseFile(c.fset, filepath.Join(dir, n), src, 0)
		if err != nil {
			return nil, err
		}
		out = append(out, f)
	}
	c.pkgs[pkg] = out
	return out, nil
}

func skipByBuildTag(src string) bool {
	for _, line := range strings.Split(src, "\n") {
		t := strings.TrimSpace(line)
		if strings.HasPrefix(t, "package ") {
			return false
		}
		if strings.HasPrefix(t, "//go:build") {
			expr := strings.TrimSpace(strings.TrimPrefix(t, "//go:build"))
			if strings.HasPrefix(expr, "!go1.") || expr == "verif" || strings.Contains(expr, "ignore") {
				return true
			}
		}
	}
	return false
}

func recvName(fd *ast.FuncDecl) string {
	if fd.Recv == nil || len(fd.Recv.List) == 0 {
		return ""
	}
	t := fd.Recv.List[0].Type
	for {
		switch x := t.(type) {
		case *ast.StarExpr:
			t = x.X
			continue
		case *ast.IndexExpr:
			t = x.X
			continue
		case *ast.IndexListExpr:
			t = x.X
			continue
		case *ast.Ident:
			return x.Name
		}
		return ""
	}
}

// FindFunc locates "Recv.Method" or "func".
func (c *Ctx) FindFunc(pkg, name string) (*ast.FuncDecl, error) {
	files, err := c.files(pkg)
	if err != nil {
		return nil, err
	}
	var found []*ast.FuncDecl
	for _, f := range files {
		for _, d := range f.Decls {
			fd, ok := d.(*ast.FuncDecl)
			if !ok || fd.Body == nil {
				continue
			}
			full := fd.Name.Name
			if r := recvName(fd); r != "" {
				full = r + "." + full
			}
			if full == name {
				found = append(found, fd)
			}
		}
	}
	if len(found) == 0 {
		return nil, fmt.Errorf("function %s not found in %s", name, pkg)
	}
	if len(found) > 1 {
		return nil, fmt.Errorf("function %s ambiguous in %s", name, pkg)
	}
	c.notePin(pkg, name)
	return found[0], nil
}

// Text prints a node gofmt-normalised with all whitespace removed.
func (c *Ctx) Text(n ast.Node) string {
	var b bytes.Buffer
	printer.Fprint(&b, c.fset, n)
	return stripSpace(b.String())
}

// Pretty prints a node gofmt-normalised on one line.
func (c *Ctx) Pretty(n ast.Node) string {
	var b bytes.Buffer
	printer.Fprint(&b, c.fset, n)
	return strings.Join(strings.Fields(b.String()), " ")
}

func stripSpace(s string) string {
	return strings.Map(func(r rune) rune {
		if r == ' ' || r == '\t' || r == '\n' {
			return -1
		}
		return r
	}, s)
}

func (c *Ctx) Fingerprint(fd *ast.FuncDecl) string {
	h := sha256.Sum256([]byte(c.Text(fd)))
	return hex.EncodeToString(h[:8])
}

// ---------------------------------------------------------------------------------------------
// selectors
//
// A selector is a '/'-separated path. Each segment picks, in a pre-order walk of the current scope
// node (not descending into function literals unless the segment is funclit[k]), the k-th node of
// a kind, and then optionally a part of it:
//
//	if[k]            .cond .body .else
//	comm[chan][k]    .body            (select arm on channel expression `chan`, position-independent)
//	for[k]           .cond .body .init .post
//	range[k]         .body .x
//	select[k]        (Select sites) ; commclause: case[k] .body
//	switch[k]        ; case[k] .body
//	assign[lhs][k]   .rhs            (lhs text with spaces removed; "*" matches any)
//	incdec[x][k]
//	return[k]        .result[j]
//	call[fun][k]     .arg[j]
//	index[x][k]      .idx
//	funclit[k]       .body
//	go[k] / defer[k] .call
//	body             the function body itself
type seg struct {
	kind string
	key  string
	k    int
	part string
	j    int
}

func parseSel(sel string) ([]seg, error) {
	var out []seg
	if sel == "" {
		return nil, nil
	}
	for _, raw := range strings.Split(sel, "/") {
		s := seg{}
		rest := raw
		// kind
		i := strings.IndexAny(rest, "[.")
		if i < 0 {
			s.kind = rest
			rest = ""
		} else {
			s.kind = rest[:i]
			rest = rest[i:]
		}
		needKey := map[string]bool{"assign": true, "incdec": true, "call": true, "index": true}[s.kind]
		needKey = needKey || s.kind == "comm" // comm[<channel expr>]: the select arm on that channel, wherever it stands
		readBr := func() (string, bool) {
			if !strings.HasPrefix(rest, "[") {
				return "", false
			}
			depth := 0
			for p, ch := range rest {
				if ch == '[' {
					depth++
				} else if ch == ']' {
					depth--
					if depth == 0 {
						v := rest[1:p]
						rest = rest[p+1:]
						return v, true
					}
				}
			}
			return "", false
		}
		if needKey {
			v, ok := readBr()
			if !ok {
				return nil, fmt.Errorf("selector %q: %s needs [key]", sel, s.kind)
			}
			s.key = stripSpace(v)
		}
		if v, ok := readBr(); ok {
			n, err := strconv.Atoi(v)
			if err != nil {
				return nil, fmt.Errorf("selector %q: bad index %q", sel, v)
			}
			s.k = n
		}
		if strings.HasPrefix(rest, ".") {
			rest = rest[1:]
			i := strings.Index(rest, "[")
			if i < 0 {
				s.part = rest
				rest = ""
			} else {
				s.part = rest[:i]
				rest = rest[i:]
				if v, ok := readBr(); ok {
					n, err := strconv.Atoi(v)
					if err != nil {
						return nil, fmt.Errorf("selector %q: bad part index", sel)
					}
					s.j = n
				}
			}
		}
		if rest != "" {
			return nil, fmt.Errorf("selector %q: trailing %q", sel, rest)
		}
		out = append(out, s)
	}
	return out, nil
}

func (c *Ctx) matchSeg(n ast.Node, s seg) bool {
	switch x := n.(type) {
	case *ast.IfStmt:
		return s.kind == "if"
	case *ast.ForStmt:
		return s.kind == "for"
	case *ast.RangeStmt:
		return s.kind == "range"
	case *ast.SelectStmt:
		return s.kind == "select"
	case *ast.SwitchStmt, *ast.TypeSwitchStmt:
		return s.kind == "switch"
	case *ast.CommClause:
		return s.kind == "case" || (s.kind == "comm" && c.commChan(x) == s.key)
	case *ast.CaseClause:
		return s.kind == "case"
	case *ast.AssignStmt:
		if s.kind != "assign" {
			return false
		}
		if s.key == "*" {
			return true
		}
		for _, l := range x.Lhs {
			if c.Text(l) == s.key {
				return true
			}
		}
		return false
	case *ast.IncDecStmt:
		return s.kind == "incdec" && (s.key == "*" || c.Text(x.X) == s.key)
	case *ast.ReturnStmt:
		return s.kind == "return"
	case *ast.CallExpr:
		return s.kind == "call" && (s.key == "*" || c.Text(x.Fun) == s.key)
	case *ast.IndexExpr:
		return s.kind == "index" && (s.key == "*" || c.Text(x.X) == s.key)
	case *ast.FuncLit:
		return s.kind == "funclit"
	case *ast.GoStmt:
		return s.kind == "go"
	case *ast.DeferStmt:
		return s.kind == "defer"
	}
	return false
}

// commChan returns the channel expression (spaces removed) of a select arm, "" for default.
func (c *Ctx) commChan(cc *ast.CommClause) string {
	switch x := cc.Comm.(type) {
	case *ast.SendStmt:
		return c.Text(x.Chan)
	case *ast.ExprStmt:
		if u, ok := x.X.(*ast.UnaryExpr); ok && u.Op == token.ARROW {
			return c.Text(u.X)
		}
	case *ast.AssignStmt:
		if len(x.Rhs) == 1 {
			if u, ok := x.Rhs[0].(*ast.UnaryExpr); ok && u.Op == token.ARROW {
				return c.Text(u.X)
			}
		}
	}
	return ""
}

func (c *Ctx) part(n ast.Node, s seg) (ast.Node, error) {
	if s.part == "" {
		return n, nil
	}
	bad := fmt.Errorf("part .%s not available on %s[%d]", s.part, s.kind, s.k)
	switch x := n.(type) {
	case *ast.IfStmt:
		switch s.part {
		case "cond":
			return x.Cond, nil
		case "body":
			return x.Body, nil
		case "else":
			if x.Else == nil {
				return nil, bad
			}
			return x.Else, nil
		}
	case *ast.ForStmt:
		switch s.part {
		case "cond":
			if x.Cond == nil {
				return nil, bad
			}
			return x.Cond, nil
		case "body":
			return x.Body, nil
		case "init":
			if x.Init == nil {
				return nil, bad
			}
			return x.Init, nil
		case "post":
			if x.Post == nil {
				return nil, bad
			}
			return x.Post, nil
		}
	case *ast.RangeStmt:
		switch s.part {
		case "body":
			return x.Body, nil
		case "x":
			return x.X, nil
		}
	case *ast.CommClause:
		if s.part == "body" {
			return &ast.BlockStmt{List: x.Body}, nil
		}
	case *ast.CaseClause:
		if s.part == "body" {
			return &ast.BlockStmt{List: x.Body}, nil
		}
	case *ast.AssignStmt:
		if s.part == "rhs" {
			if s.j >= len(x.Rhs) {
				return nil, bad
			}
			return x.Rhs[s.j], nil
		}
	case *ast.ReturnStmt:
		if s.part == "result" {
			if s.j >= len(x.Results) {
				return nil, bad
			}
			return x.Results[s.j], nil
		}
	case *ast.CallExpr:
		if s.part == "arg" {
			if s.j >= len(x.Args) {
				return nil, bad
			}
			return x.Args[s.j], nil
		}
	case *ast.IndexExpr:
		if s.part == "idx" {
			return x.Index, nil
		}
	case *ast.FuncLit:
		if s.part == "body" {
			return x.Body, nil
		}
	case *ast.GoStmt:
		if s.part == "call" {
			return x.Call, nil
		}
	case *ast.DeferStmt:
		if s.part == "call" {
			return x.Call, nil
		}
	}
	return nil, bad
}

// SelectPath resolves a selector inside a function.
func (c *Ctx) SelectPath(fd *ast.FuncDecl, sel string) (ast.Node, error) {
	segs, err := parseSel(sel)
	if err != nil {
		return nil, err
	}
	var cur ast.Node = fd.Body
	for _, s := range segs {
		if s.kind == "body" {
			continue
		}
		var hits []ast.Node
		root := cur
		ast.Inspect(cur, func(n ast.Node) bool {
			if n == nil {
				return false
			}
			if n != root {
				if _, isLit := n.(*ast.FuncLit); isLit && s.kind != "funclit" {
					return false
				}
			}
			if n != root && c.matchSeg(n, s) {
				hits = append(hits, n)
				if _, isLit := n.(*ast.FuncLit); isLit {
					return false
				}
			}
			return true
		})
		if s.k >= len(hits) {
			return nil, fmt.Errorf("selector %q: only %d match(es) for %s[%s], wanted #%d", sel, len(hits), s.kind, s.key, s.k)
		}
		p, err := c.part(hits[s.k], s)
		if err != nil {
			return nil, fmt.Errorf("selector %q: %v", sel, err)
		}
		cur = p
	}
	return cur, nil
}

// ---------------------------------------------------------------------------------------------
// expression translation

type trEnv struct {
	c      *Ctx
	s      *Site
	locals map[string]string // local Go ident -> type
	consts map[string]string // Go const name -> Lean name, consts emitted in this module
}

func (e *trEnv) typeOfVar(lean string) string {
	for _, p := range e.s.Params {
		if p.Name == lean {
			return p.Type
		}
	}
	return ""
}

var intLit = func(n string) string { return "(" + n + " : Int)" }

// tr returns (term, type) where type is "Int" or "Bool" (or the Site's numeric type).
func (e *trEnv) tr(x ast.Expr) (string, string, error) {
	txt := e.c.Text(x)
	if v, ok := e.s.Vars[txt]; ok {
		t := e.typeOfVar(v)
		if t == "" {
			t = "Int"
		}
		return v, t, nil
	}
	num := "Int"
	switch n := x.(type) {
	case *ast.ParenExpr:
		a, t, err := e.tr(n.X)
		if err != nil {
			return "", "", err
		}
		return a, t, nil
	case *ast.BasicLit:
		if n.Kind != token.INT {
			return "", "", fmt.Errorf("unsupported literal %s", txt)
		}
		if e.s.Ops != nil && e.s.Ops.Lit != nil {
			return e.s.Ops.Lit(n.Value), num, nil
		}
		return intLit(n.Value), num, nil
	case *ast.Ident:
		if n.Name == "true" || n.Name == "false" {
			return n.Name, "Bool", nil
		}
		if t, ok := e.locals[n.Name]; ok {
			return n.Name, t, nil
		}
		if ln, ok := e.consts[n.Name]; ok {
			return ln, num, nil
		}
		return "", "", fmt.Errorf("unmapped identifier %q", n.Name)
	case *ast.UnaryExpr:
		a, t, err := e.tr(n.X)
		if err != nil {
			return "", "", err
		}
		switch n.Op {
		case token.SUB:
			if e.s.Ops != nil && e.s.Ops.Neg != nil {
				return e.s.Ops.Neg(a), t, nil
			}
			return "(-" + a + ")", t, nil
		case token.NOT:
			if t != "Bool" {
				return "", "", fmt.Errorf("! applied to non-Bool %s", txt)
			}
			return "(!" + a + ")", "Bool", nil
		case token.ADD:
			return a, t, nil
		}
		return "", "", fmt.Errorf("unsupported unary %s", n.Op)
	case *ast.BinaryExpr:
		a, ta, err := e.tr(n.X)
		if err != nil {
			return "", "", err
		}
		b, tb, err := e.tr(n.Y)
		if err != nil {
			return "", "", err
		}
		op := n.Op.String()
		switch n.Op {
		case token.ADD, token.SUB, token.MUL, token.QUO, token.REM:
			if ta == "Bool" || tb == "Bool" {
				return "", "", fmt.Errorf("arithmetic on Bool in %s", txt)
			}
			if e.s.Ops != nil && e.s.Ops.Bin != nil {
				if r, ok := e.s.Ops.Bin(op, a, b); ok {
					return r, ta, nil
				}
			}
			switch n.Op {
			case token.QUO:
				return "(Int.tdiv " + a + " " + b + ")", ta, nil
			case token.REM:
				return "(Int.tmod " + a + " " + b + ")", ta, nil
			}
			return "(" + a + " " + op + " " + b + ")", ta, nil
		case token.LSS, token.LEQ, token.GTR, token.GEQ:
			if e.s.Ops != nil && e.s.Ops.Cmp != nil {
				if r, ok := e.s.Ops.Cmp(op, a, b); ok {
					return r, "Bool", nil
				}
			}
			lop := map[string]string{"<": "<", "<=": "≤", ">": ">", ">=": "≥"}[op]
			return "(decide (" + a + " " + lop + " " + b + "))", "Bool", nil
		case token.EQL, token.NEQ:
			var r string
			if ta == "Bool" && tb == "Bool" {
				r = "(" + a + " == " + b + ")"
			} else if ta == "Bool" || tb == "Bool" {
				return "", "", fmt.Errorf("== between Bool and number in %s", txt)
			} else if e.s.Ops != nil && e.s.Ops.Cmp != nil {
				rr, ok := e.s.Ops.Cmp("==", a, b)
				if !ok {
					return "", "", fmt.Errorf("no == for custom ops")
				}
				r = rr
			} else {
				r = "(decide (" + a + " = " + b + "))"
			}
			if n.Op == token.NEQ {
				r = "(!" + r + ")"
			}
			return r, "Bool", nil
		case token.LAND:
			if ta != "Bool" || tb != "Bool" {
				return "", "", fmt.Errorf("&& on non-Bool in %s", txt)
			}
			return "(" + a + " && " + b + ")", "Bool", nil
		case token.LOR:
			if ta != "Bool" || tb != "Bool" {
				return "", "", fmt.Errorf("|| on non-Bool in %s", txt)
			}
			return "(" + a + " || " + b + ")", "Bool", nil
		}
		return "", "", fmt.Errorf("unsupported operator %s", op)
	case *ast.CallExpr:
		fn := e.c.Text(n.Fun)
		lean, ok := e.s.Calls[fn]
		if !ok {
			return "", "", fmt.Errorf("unmapped call %s", txt)
		}
		out := "(" + lean
		for _, a := range n.Args {
			t, _, err := e.tr(a)
			if err != nil {
				return "", "", err
			}
			out += " " + t
		}
		return out + ")", num, nil
	}
	return "", "", fmt.Errorf("unsupported expression %s", txt)
}

func endsTerminally(stmts []ast.Stmt) bool {
	if len(stmts) == 0 {
		return false
	}
	switch x := stmts[len(stmts)-1].(type) {
	case *ast.ReturnStmt:
		return true
	case *ast.ExprStmt:
		if c, ok := x.X.(*ast.CallExpr); ok {
			if id, ok := c.Fun.(*ast.Ident); ok && id.Name == "panic" {
				return true
			}
		}
	case *ast.IfStmt:
		if x.Else == nil {
			return false
		}
		eb, ok := x.Else.(*ast.BlockStmt)
		if !ok {
			return false
		}
		return endsTerminally(x.Body.List) && endsTerminally(eb.List)
	}
	return false
}

// trStmts translates a terminating statement list into a Lean term. If mayPanic, results are
// wrapped in Option (panic = none).
func (e *trEnv) trStmts(stmts []ast.Stmt, mayPanic bool, indent string) (string, error) {
	if len(stmts) == 0 {
		return "", fmt.Errorf("function falls off its end")
	}
	st, rest := stmts[0], stmts[1:]
	switch x := st.(type) {
	case *ast.ReturnStmt:
		if len(x.Results) == 0 {
			return "", fmt.Errorf("bare return")
		}
		var parts []string
		for _, r := range x.Results {
			t, _, err := e.tr(r)
			if err != nil {
				return "", err
			}
			parts = append(parts, t)
		}
		v := parts[0]
		if len(parts) > 1 {
			v = "(" + strings.Join(parts, ", ") + ")"
		}
		if mayPanic {
			return "some " + v, nil
		}
		return v, nil
	case *ast.ExprStmt:
		if c, ok := x.X.(*ast.CallExpr); ok {
			if id, ok := c.Fun.(*ast.Ident); ok && id.Name == "panic" {
				if !mayPanic {
					return "", fmt.Errorf("panic in non-panicking translation")
				}
				return "none", nil
			}
		}
		return "", fmt.Errorf("unsupported statement %s", e.c.Pretty(st))
	case *ast.AssignStmt:
		if len(x.Lhs) != 1 || len(x.Rhs) != 1 {
			return "", fmt.Errorf("unsupported assignment %s", e.c.Pretty(st))
		}
		id, ok := x.Lhs[0].(*ast.Ident)
		if !ok {
			return "", fmt.Errorf("unsupported assignment target %s", e.c.Pretty(st))
		}
		v, t, err := e.tr(x.Rhs[0])
		if err != nil {
			return "", err
		}
		name := id.Name
		switch x.Tok {
		case token.DEFINE, token.ASSIGN:
		case token.ADD_ASSIGN:
			v = "(" + name + " + " + v + ")"
		case token.SUB_ASSIGN:
			v = "(" + name + " - " + v + ")"
		default:
			return "", fmt.Errorf("unsupported assignment op %s", e.c.Pretty(st))
		}
		e.locals[name] = t
		r, err := e.trStmts(rest, mayPanic, indent)
		if err != nil {
			return "", err
		}
		return "let " + name + " := " + v + "\n" + indent + r, nil
	case *ast.IfStmt:
		if x.Init != nil {
			return "", fmt.Errorf("if with init unsupported")
		}
		cnd, t, err := e.tr(x.Cond)
		if err != nil {
			return "", err
		}
		if t != "Bool" {
			return "", fmt.Errorf("non-Bool condition")
		}
		thenStmts := append([]ast.Stmt{}, x.Body.List...)
		if !endsTerminally(thenStmts) {
			thenStmts = append(thenStmts, rest...)
		}
		var elseStmts []ast.Stmt
		if x.Else != nil {
			switch eb := x.Else.(type) {
			case *ast.BlockStmt:
				elseStmts = append(elseStmts, eb.List...)
			case *ast.IfStmt:
				elseStmts = append(elseStmts, eb)
			}
			if !endsTerminally(elseStmts) {
				elseStmts = append(elseStmts, rest...)
			}
		} else {
			elseStmts = rest
		}
		saved := map[string]string{}
		for k, v := range e.locals {
			saved[k] = v
		}
		a, err := e.trStmts(thenStmts, mayPanic, indent+"  ")
		if err != nil {
			return "", err
		}
		e.locals = saved
		b, err := e.trStmts(elseStmts, mayPanic, indent+"  ")
		if err != nil {
			return "", err
		}
		return "if " + cnd + " = true then\n" + indent + "  " + a + "\n" + indent + "else\n" + indent + "  " + b, nil
	}
	return "", fmt.Errorf("unsupported statement %s", e.c.Pretty(st))
}

func containsPanic(n ast.Node) bool {
	found := false
	ast.Inspect(n, func(n ast.Node) bool {
		if c, ok := n.(*ast.CallExpr); ok {
			if id, ok := c.Fun.(*ast.Ident); ok && id.Name == "panic" {
				found = true
			}
		}
		return true
	})
	return found
}

func paramsText(ps []Param) string {
	var b strings.Builder
	for _, p := range ps {
		t := p.Type
		if t == "" {
			t = "Int"
		}
		fmt.Fprintf(&b, " (%s : %s)", p.Name, t)
	}
	return b.String()
}

func leanString(s string) string {
	return strconv.Quote(s)
}

// simple statements of a block, in order, printed; compound statements are flattened with markers.
func (c *Ctx) stmtList(n ast.Node) []string {
	var out []string
	var walk func(list []ast.Stmt)
	walk = func(list []ast.Stmt) {
		for _, st := range list {
			switch x := st.(type) {
			case *ast.IfStmt:
				out = append(out, "if "+c.Pretty(x.Cond)+" {")
				walk(x.Body.List)
				if x.Else != nil {
					out = append(out, "} else {")
					switch eb := x.Else.(type) {
					case *ast.BlockStmt:
						walk(eb.List)
					case *ast.IfStmt:
						walk([]ast.Stmt{eb})
					}
				}
				out = append(out, "}")
			case *ast.ForStmt:
				h := "for"
				if x.Cond != nil {
					h += " " + c.Pretty(x.Cond)
				}
				out = append(out, h+" {")
				walk(x.Body.List)
				out = append(out, "}")
			case *ast.BlockStmt:
				walk(x.List)
			default:
				out = append(out, c.Pretty(st))
			}
		}
	}
	switch x := n.(type) {
	case *ast.BlockStmt:
		walk(x.List)
	case ast.Stmt:
		walk([]ast.Stmt{x})
	}
	return out
}

func (c *Ctx) countText(scope ast.Node, text string) int {
	want := stripSpace(text)
	n := 0
	ast.Inspect(scope, func(x ast.Node) bool {
		if x == nil {
			return false
		}
		if st, ok := x.(ast.Stmt); ok {
			switch st.(type) {
			case *ast.BlockStmt, *ast.IfStmt, *ast.ForStmt, *ast.RangeStmt, *ast.SelectStmt, *ast.SwitchStmt:
			default:
				if c.Text(st) == want {
					n++
				}
			}
		}
		return true
	})
	return n
}

func (c *Ctx) selectArms(n ast.Node) (string, error) {
	sel, ok := n.(*ast.SelectStmt)
	if !ok {
		return "", fmt.Errorf("selector does not denote a select statement")
	}
	var arms []string
	for _, cl := range sel.Body.List {
		cc := cl.(*ast.CommClause)
		switch x := cc.Comm.(type) {
		case nil:
			arms = append(arms, ".dflt")
		case *ast.SendStmt:
			arms = append(arms, ".send "+leanString(c.Text(x.Chan)))
		case *ast.ExprStmt:
			u, ok := x.X.(*ast.UnaryExpr)
			if !ok || u.Op != token.ARROW {
				return "", fmt.Errorf("unsupported comm clause %s", c.Pretty(x))
			}
			arms = append(arms, ".recv "+leanString(c.Text(u.X)))
		case *ast.AssignStmt:
			u, ok := x.Rhs[0].(*ast.UnaryExpr)
			if !ok || u.Op != token.ARROW {
				return "", fmt.Errorf("unsupported comm clause %s", c.Pretty(x))
			}
			arms = append(arms, ".recv "+leanString(c.Text(u.X)))
		default:
			return "", fmt.Errorf("unsupported comm clause")
		}
	}
	return "[" + strings.Join(arms, ", ") + "]", nil
}

// emit produces the Lean text of one site.
func (c *Ctx) emit(s *Site, consts map[string]string) (string, string, error) {
	typ := s.Type
	if typ == "" {
		typ = "Int"
	}
	if s.Kind == Const {
		files, err := c.files(s.Pkg)
		if err != nil {
			return "", "", err
		}
		for _, f := range files {
			for _, d := range f.Decls {
				gd, ok := d.(*ast.GenDecl)
				if !ok || gd.Tok != token.CONST {
					continue
				}
				for _, sp := range gd.Specs {
					vs := sp.(*ast.ValueSpec)
					for i, id := range vs.Names {
						if id.Name == s.Func && i < len(vs.Values) {
							env := &trEnv{c: c, s: s, locals: map[string]string{}, consts: consts}
							t, _, err := env.tr(vs.Values[i])
							if err != nil {
								return "", "", err
							}
							return fmt.Sprintf("def %s : Int := %s\n", s.Name, t), "", nil
						}
					}
				}
			}
		}
		return "", "", fmt.Errorf("const %s not found in %s", s.Func, s.Pkg)
	}
	if s.Kind == Custom && s.Func == "" {
		t, err := s.Custom(c, s)
		return t, "", err
	}
	fd, err := c.FindFunc(s.Pkg, s.Func)
	if err != nil {
		return "", "", err
	}
	fp := c.Fingerprint(fd)
	env := &trEnv{c: c, s: s, locals: map[string]string{}, consts: consts}
	switch s.Kind {
	case Custom:
		t, err := s.Custom(c, s)
		return t, fp, err
	case Expr:
		n, err := c.SelectPath(fd, s.Sel)
		if err != nil {
			return "", fp, err
		}
		x, ok := n.(ast.Expr)
		if !ok {
			return "", fp, fmt.Errorf("selector %q is not an expression", s.Sel)
		}
		t, ty, err := env.tr(x)
		if err != nil {
			return "", fp, err
		}
		if ty != typ && !(typ != "Bool" && ty != "Bool") {
			return "", fp, fmt.Errorf("site %s: expected %s, expression %s is %s", s.Name, typ, c.Pretty(x), ty)
		}
		return fmt.Sprintf("/-- `%s` in `%s` (%s) -/\ndef %s%s : %s := %s\n", c.Pretty(x), s.Func, s.Sel, s.Name, paramsText(s.Params), typ, t), fp, nil
	case Func:
		var body []ast.Stmt = fd.Body.List
		if s.Sel != "" {
			n, err := c.SelectPath(fd, s.Sel)
			if err != nil {
				return "", fp, err
			}
			b, ok := n.(*ast.BlockStmt)
			if !ok {
				return "", fp, fmt.Errorf("selector %q is not a block", s.Sel)
			}
			body = b.List
		}
		for _, p := range s.Params {
			t := p.Type
			if t == "" {
				t = "Int"
			}
			env.locals[p.Name] = t
		}
		mayPanic := containsPanic(fd.Body)
		t, err := env.trStmts(body, mayPanic, "  ")
		if err != nil {
			return "", fp, err
		}
		rt := typ
		if mayPanic {
			rt = "Option (" + typ + ")"
		}
		return fmt.Sprintf("/-- whole function `%s` -/\ndef %s%s : %s :=\n  %s\n", s.Func, s.Name, paramsText(s.Params), rt, t), fp, nil
	case Select:
		n, err := c.SelectPath(fd, s.Sel)
		if err != nil {
			return "", fp, err
		}
		t, err := c.selectArms(n)
		if err != nil {
			return "", fp, err
		}
		return fmt.Sprintf("/-- select `%s` in `%s` -/\ndef %s : List Arm := %s\n", s.Sel, s.Func, s.Name, t), fp, nil
	case Present, Count:
		var scope ast.Node = fd.Body
		if s.Sel != "" {
			n, err := c.SelectPath(fd, s.Sel)
			if err != nil {
				return "", fp, err
			}
			scope = n
		}
		k := c.countText(scope, s.Text)
		if s.Kind == Present {
			return fmt.Sprintf("/-- `%s` occurs in `%s` %s -/\ndef %s : Bool := %v\n", s.Text, s.Func, s.Sel, s.Name, k > 0), fp, nil
		}
		return fmt.Sprintf("/-- occurrences of `%s` in `%s` %s -/\ndef %s : Nat := %d\n", s.Text, s.Func, s.Sel, s.Name, k), fp, nil
	case StmtList:
		var scope ast.Node = fd.Body
		if s.Sel != "" {
			n, err := c.SelectPath(fd, s.Sel)
			if err != nil {
				return "", fp, err
			}
			scope = n
		}
		l := c.stmtList(scope)
		q := make([]string, len(l))
		for i, x := range l {
			q[i] = leanString(x)
		}
		return fmt.Sprintf("/-- statements of `%s` %s -/\ndef %s : List String := [%s]\n", s.Func, s.Sel, s.Name, strings.Join(q, ",\n  ")), fp, nil
	}
	return "", fp, fmt.Errorf("unknown kind")
}

type modReport struct {
	Sites        int               `json:"sites"`
	Errors       []string          `json:"errors"`
	Fingerprints map[string]string `json:"fingerprints"`
	Changed      bool              `json:"changed"`
}

func generate(repo, outDir string) (map[string]*modReport, error) {
	if *apiFuncs != "" {
		listAPIFuncs(repo, *apiFuncs) // pins.go; prints and exits
	}
	c := newCtx(repo)
	byMod := map[string][]*Site{}
	var mods []string
	for i := range allSites {
		s := &allSites[i]
		if _, ok := byMod[s.Module]; !ok {
			mods = append(mods, s.Module)
		}
		byMod[s.Module] = append(byMod[s.Module], s)
	}
	sort.Strings(mods)
	rep := map[string]*modReport{}
	if err := os.MkdirAll(outDir, 0o755); err != nil {
		return nil, err
	}
	for _, m := range mods {
		r := &modReport{Fingerprints: map[string]string{}}
		rep[m] = r
		var b strings.Builder
		b.WriteString("-- GENERATED by tools/gofacts from the Go source on every run. Do not edit.\n")
		b.WriteString("import Juniper.Facts\nset_option linter.unusedVariables false\n\nnamespace Juniper.Gen." + m + "\nopen Juniper.Facts\n\n")
		consts := map[string]string{}
		names := map[string]bool{}
		c.curMod = m
		var sitePkgs []string
		for _, s := range byMod[m] {
			sitePkgs = append(sitePkgs, s.Pkg)
			r.Sites++
			if names[s.Name] {
				r.Errors = append(r.Errors, fmt.Sprintf("%s: duplicate definition name", s.Name))
				continue
			}
			names[s.Name] = true
			txt, fp, err := c.emit(s, consts)
			if fp != "" {
				r.Fingerprints[s.Pkg+":"+s.Func] = fp
			}
			if err != nil {
				r.Errors = append(r.Errors, fmt.Sprintf("%s (%s %s %s): %v", s.Name, s.Pkg, s.Func, s.Sel, err))
				fmt.Fprintf(&b, "-- MISSING %s: %s\n\n", s.Name, strings.ReplaceAll(err.Error(), "\n", " "))
				continue
			}
			if s.Kind == Const {
				consts[s.Func] = s.Name
			}
			b.WriteString(txt)
			b.WriteString("\n")
		}
		b.WriteString("end Juniper.Gen." + m + "\n")
		c.curMod = ""
		// pins.go: Pin<m> (or, with -pin, the committed expectations; then nothing else is written)
		if err := c.emitPins(m, sitePkgs, outDir, rep); err != nil {
			return nil, err
		}
		if *pinMode {
			continue
		}
		path := filepath.Join(outDir, m+".lean")
		old, _ := os.ReadFile(path)
		if string(old) != b.String() {
			r.Changed = true
			if err := os.WriteFile(path, []byte(b.String()), 0o644); err != nil {
				return nil, err
			}
		}
	}
	return rep, nil
}
