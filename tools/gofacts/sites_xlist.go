package main

// container/xlist -> Juniper.Gen.XList. Consumed by Model/XList.lean (C06).
//
// The ten operations of xlist.List and the internal `remove` are pure pointer surgery: ordered
// lists of assignments to l.front / l.back / l.size / x.prev / x.next, guarded by pointer
// (in)equality tests. Their statement lists are translated, statement by statement and in source
// order, into a tiny pointer-program language (emitted here as well, because generated modules can
// only import Juniper.Facts). The Lean model is an interpreter of these programs, so the theorems
// of Props/C06.lean are about exactly the statements that are in xlist.go now: dropping or
// re-ordering an assignment changes the generated program and the proofs about it no longer
// compile, and the executable model follows the code so the correspondence and monitors can look
// for the failing input.
//
// Anything outside the grammar (nested ifs, multi-assignments, unknown calls, other fields) is a
// translation failure = broken tie.

import (
	"fmt"
	"go/ast"
	"go/token"
	"strings"
)

const xlistVocabulary = `/-- pointer fields of ` + "`Node`" + ` -/
inductive Fld where
  | prev | next
  deriving DecidableEq, Repr

/-- pointer-valued expressions of xlist.go: ` + "`nil`, the locals `node`/`mark`, `l.front`, `l.back`, `e.prev`, `e.next`" + ` -/
inductive PExpr where
  | nil | node | mark | front | back
  | fld (p : PExpr) (f : Fld)
  deriving DecidableEq, Repr

/-- methods of ` + "`List`" + ` called from other methods -/
inductive Callee where
  | remove | moveBefore | moveAfter
  deriving DecidableEq, Repr

/-- simple statements -/
inductive Simple where
  /-- ` + "`l.front = e`" + ` -/
  | setFront (e : PExpr)
  /-- ` + "`l.back = e`" + ` -/
  | setBack (e : PExpr)
  /-- ` + "`p.f = e`" + ` -/
  | setFld (p : PExpr) (f : Fld) (e : PExpr)
  /-- ` + "`node := &Node[T]{prev: p, next: n, Value: value}`" + ` -/
  | alloc (prev next : PExpr)
  /-- ` + "`l.size++`, `l.size--`, `l.size += k`" + ` -/
  | sizeAdd (k : Int)
  /-- ` + "`l.size = k`" + ` -/
  | sizeSet (k : Int)
  /-- ` + "`return`" + ` -/
  | ret
  /-- ` + "`return node`" + ` -/
  | retNode
  /-- ` + "`l.m(args)`" + ` -/
  | call (fn : Callee) (args : List PExpr)
  /-- ` + "`p.Value = …`" + ` (never expected: the package promises not to touch Value) -/
  | writeValue (p : PExpr)
  deriving DecidableEq, Repr

/-- statements: a simple statement, or ` + "`if a == b { thn } else { els }` (`eq = false`: `!=`)" + ` -/
inductive Stmt where
  | simple (s : Simple)
  | ite (eq : Bool) (a b : PExpr) (thn els : List Simple)
  deriving DecidableEq, Repr
`

type xlTr struct {
	c     *Ctx
	recv  string            // receiver name of the method being translated
	roles map[string]string // Go identifier -> ".node" | ".mark"
}

// isPtrTo: t is `*name` or `*name[...]`.
func isPtrTo(t ast.Expr, name string) bool {
	st, ok := t.(*ast.StarExpr)
	if !ok {
		return false
	}
	x := st.X
	for {
		switch y := x.(type) {
		case *ast.IndexExpr:
			x = y.X
			continue
		case *ast.IndexListExpr:
			x = y.X
			continue
		case *ast.Ident:
			return y.Name == name
		}
		return false
	}
}

func isNodePtr(t ast.Expr) bool { return isPtrTo(t, "Node") }

// recvIsPtrTo: the method has exactly one receiver and its type is `*name[...]`. The statement
// interpreter of the model mutates the list / the nodes *in place* (`l.front = …`, `n.prev = …`), which
// is what the Go statements do only through a pointer receiver: with a value receiver (`func (l List[T])
// Clear()`) the same statements act on a copy. A translated method or accessor whose receiver is not
// the expected pointer type is therefore an extraction error (= broken tie), not a fact.
func recvIsPtrTo(fd *ast.FuncDecl, name string) bool {
	return fd.Recv != nil && len(fd.Recv.List) == 1 && isPtrTo(fd.Recv.List[0].Type, name)
}

func recvIdent(fd *ast.FuncDecl) string {
	if fd.Recv == nil || len(fd.Recv.List) == 0 || len(fd.Recv.List[0].Names) == 0 {
		return ""
	}
	return fd.Recv.List[0].Names[0].Name
}

// accessor returns the field that a one-line accessor method returns (`return r.<field>`), or "".
func (c *Ctx) xlAccessor(name string) string {
	fd, err := c.FindFunc("container/xlist", name)
	if err != nil || len(fd.Body.List) != 1 {
		return ""
	}
	if !recvIsPtrTo(fd, strings.SplitN(name, ".", 2)[0]) {
		return "" // value receiver (or a different type): reported as an extraction error by the caller
	}
	r, ok := fd.Body.List[0].(*ast.ReturnStmt)
	if !ok || len(r.Results) != 1 {
		return ""
	}
	res := r.Results[0]
	for {
		p, ok := res.(*ast.ParenExpr)
		if !ok {
			break
		}
		res = p.X
	}
	s, ok := res.(*ast.SelectorExpr)
	if !ok {
		return ""
	}
	id, ok := s.X.(*ast.Ident)
	if !ok || id.Name != recvIdent(fd) {
		return ""
	}
	return s.Sel.Name
}

func (t *xlTr) ptr(x ast.Expr) (string, error) {
	switch n := x.(type) {
	case *ast.ParenExpr:
		return t.ptr(n.X)
	case *ast.Ident:
		if n.Name == "nil" {
			return ".nil", nil
		}
		if r, ok := t.roles[n.Name]; ok {
			return r, nil
		}
		return "", fmt.Errorf("unmapped identifier %q", n.Name)
	case *ast.SelectorExpr:
		if id, ok := n.X.(*ast.Ident); ok && id.Name == t.recv {
			switch n.Sel.Name {
			case "front":
				return ".front", nil
			case "back":
				return ".back", nil
			}
			return "", fmt.Errorf("unsupported list field %s", t.c.Pretty(x))
		}
		if n.Sel.Name == "prev" || n.Sel.Name == "next" {
			p, err := t.ptr(n.X)
			if err != nil {
				return "", err
			}
			return "(.fld " + p + " ." + n.Sel.Name + ")", nil
		}
		return "", fmt.Errorf("unsupported selector %s", t.c.Pretty(x))
	case *ast.CallExpr:
		s, ok := n.Fun.(*ast.SelectorExpr)
		if !ok || len(n.Args) != 0 {
			return "", fmt.Errorf("unsupported call %s", t.c.Pretty(x))
		}
		if id, ok := s.X.(*ast.Ident); ok && id.Name == t.recv {
			switch f := t.c.xlAccessor("List." + s.Sel.Name); f {
			case "front", "back":
				return "." + f, nil
			}
			return "", fmt.Errorf("call %s is not a front/back accessor", t.c.Pretty(x))
		}
		switch f := t.c.xlAccessor("Node." + s.Sel.Name); f {
		case "prev", "next":
			p, err := t.ptr(s.X)
			if err != nil {
				return "", err
			}
			return "(.fld " + p + " ." + f + ")", nil
		}
		return "", fmt.Errorf("call %s is not a prev/next accessor", t.c.Pretty(x))
	}
	return "", fmt.Errorf("unsupported pointer expression %s", t.c.Pretty(x))
}

func (t *xlTr) isSize(x ast.Expr) bool {
	s, ok := x.(*ast.SelectorExpr)
	if !ok || s.Sel.Name != "size" {
		return false
	}
	id, ok := s.X.(*ast.Ident)
	return ok && id.Name == t.recv
}

func intLitValue(x ast.Expr) (string, bool) {
	neg := false
	if u, ok := x.(*ast.UnaryExpr); ok && u.Op == token.SUB {
		neg = true
		x = u.X
	}
	b, ok := x.(*ast.BasicLit)
	if !ok || b.Kind != token.INT {
		return "", false
	}
	if neg {
		return "(-" + b.Value + ")", true
	}
	return b.Value, true
}

func (t *xlTr) simple(st ast.Stmt) (string, error) {
	bad := fmt.Errorf("unsupported statement %s", t.c.Pretty(st))
	switch x := st.(type) {
	case *ast.IncDecStmt:
		if !t.isSize(x.X) {
			return "", bad
		}
		if x.Tok == token.INC {
			return ".sizeAdd 1", nil
		}
		return ".sizeAdd (-1)", nil
	case *ast.ReturnStmt:
		if len(x.Results) == 0 {
			return ".ret", nil
		}
		if len(x.Results) == 1 {
			if id, ok := x.Results[0].(*ast.Ident); ok && t.roles[id.Name] == ".node" {
				return ".retNode", nil
			}
		}
		return "", bad
	case *ast.ExprStmt:
		call, ok := x.X.(*ast.CallExpr)
		if !ok {
			return "", bad
		}
		s, ok := call.Fun.(*ast.SelectorExpr)
		if !ok {
			return "", bad
		}
		id, ok := s.X.(*ast.Ident)
		if !ok || id.Name != t.recv {
			return "", bad
		}
		callee, ok := map[string]string{"remove": ".remove", "MoveBefore": ".moveBefore", "MoveAfter": ".moveAfter"}[s.Sel.Name]
		if !ok {
			return "", bad
		}
		var args []string
		for _, a := range call.Args {
			p, err := t.ptr(a)
			if err != nil {
				return "", err
			}
			args = append(args, p)
		}
		return ".call " + callee + " [" + strings.Join(args, ", ") + "]", nil
	case *ast.AssignStmt:
		if len(x.Lhs) != 1 || len(x.Rhs) != 1 {
			return "", bad
		}
		lhs, rhs := x.Lhs[0], x.Rhs[0]
		if x.Tok == token.DEFINE {
			id, ok := lhs.(*ast.Ident)
			if !ok || t.roles[id.Name] != ".node" {
				return "", bad
			}
			u, ok := rhs.(*ast.UnaryExpr)
			if !ok || u.Op != token.AND {
				return "", bad
			}
			cl, ok := u.X.(*ast.CompositeLit)
			if !ok {
				return "", bad
			}
			prev, next, hasValue := ".nil", ".nil", false
			for _, el := range cl.Elts {
				kv, ok := el.(*ast.KeyValueExpr)
				if !ok {
					return "", bad
				}
				k, ok := kv.Key.(*ast.Ident)
				if !ok {
					return "", bad
				}
				switch k.Name {
				case "prev", "next":
					p, err := t.ptr(kv.Value)
					if err != nil {
						return "", err
					}
					if k.Name == "prev" {
						prev = p
					} else {
						next = p
					}
				case "Value":
					v, ok := kv.Value.(*ast.Ident)
					if !ok || v.Name != "value" {
						return "", fmt.Errorf("node literal: Value is not the parameter `value` in %s", t.c.Pretty(st))
					}
					hasValue = true
				default:
					return "", bad
				}
			}
			if !hasValue {
				return "", fmt.Errorf("node literal does not store the value: %s", t.c.Pretty(st))
			}
			return ".alloc " + prev + " " + next, nil
		}
		if t.isSize(lhs) {
			switch x.Tok {
			case token.ASSIGN:
				if v, ok := intLitValue(rhs); ok {
					return ".sizeSet " + v, nil
				}
			case token.ADD_ASSIGN:
				if v, ok := intLitValue(rhs); ok {
					return ".sizeAdd " + v, nil
				}
			case token.SUB_ASSIGN:
				if v, ok := intLitValue(rhs); ok {
					return ".sizeAdd (-" + v + ")", nil
				}
			}
			return "", bad
		}
		sel, ok := lhs.(*ast.SelectorExpr)
		if !ok {
			return "", bad
		}
		if sel.Sel.Name == "Value" {
			p, err := t.ptr(sel.X)
			if err != nil {
				return "", err
			}
			return ".writeValue " + p, nil
		}
		if x.Tok != token.ASSIGN {
			return "", bad
		}
		r, err := t.ptr(rhs)
		if err != nil {
			return "", err
		}
		if id, ok := sel.X.(*ast.Ident); ok && id.Name == t.recv {
			switch sel.Sel.Name {
			case "front":
				return ".setFront " + r, nil
			case "back":
				return ".setBack " + r, nil
			}
			return "", bad
		}
		if sel.Sel.Name == "prev" || sel.Sel.Name == "next" {
			p, err := t.ptr(sel.X)
			if err != nil {
				return "", err
			}
			return ".setFld " + p + " ." + sel.Sel.Name + " " + r, nil
		}
		return "", bad
	}
	return "", bad
}

func (t *xlTr) simples(list []ast.Stmt) (string, error) {
	var out []string
	for _, st := range list {
		s, err := t.simple(st)
		if err != nil {
			return "", err
		}
		out = append(out, s)
	}
	return "[" + strings.Join(out, ", ") + "]", nil
}

func (t *xlTr) stmt(st ast.Stmt) (string, error) {
	ifs, ok := st.(*ast.IfStmt)
	if !ok {
		s, err := t.simple(st)
		if err != nil {
			return "", err
		}
		return ".simple (" + s + ")", nil
	}
	if ifs.Init != nil {
		return "", fmt.Errorf("if with init unsupported")
	}
	cond, ok := ifs.Cond.(*ast.BinaryExpr)
	if !ok || (cond.Op != token.EQL && cond.Op != token.NEQ) {
		return "", fmt.Errorf("unsupported condition %s", t.c.Pretty(ifs.Cond))
	}
	a, err := t.ptr(cond.X)
	if err != nil {
		return "", err
	}
	b, err := t.ptr(cond.Y)
	if err != nil {
		return "", err
	}
	thn, err := t.simples(ifs.Body.List)
	if err != nil {
		return "", err
	}
	els := "[]"
	if ifs.Else != nil {
		eb, ok := ifs.Else.(*ast.BlockStmt)
		if !ok {
			return "", fmt.Errorf("else-if unsupported")
		}
		els, err = t.simples(eb.List)
		if err != nil {
			return "", err
		}
	}
	eq := "true"
	if cond.Op == token.NEQ {
		eq = "false"
	}
	return ".ite " + eq + " " + a + " " + b + " " + thn + " " + els, nil
}

func xlistProgram(c *Ctx, s *Site) (string, error) {
	fd, err := c.FindFunc(s.Pkg, s.Func)
	if err != nil {
		return "", err
	}
	t := &xlTr{c: c, recv: recvIdent(fd), roles: map[string]string{}}
	if t.recv == "" {
		return "", fmt.Errorf("%s has no named receiver", s.Func)
	}
	if !recvIsPtrTo(fd, "List") {
		return "", fmt.Errorf("%s: receiver is `%s`, not `*List[...]`: its statements would act on a copy of the list", s.Func, c.Pretty(fd.Recv.List[0].Type))
	}
	var ptrParams []string
	for _, f := range fd.Type.Params.List {
		if isNodePtr(f.Type) {
			for _, n := range f.Names {
				ptrParams = append(ptrParams, n.Name)
			}
		}
	}
	// the local that receives a freshly allocated node, if any
	alloc := ""
	for _, st := range fd.Body.List {
		if as, ok := st.(*ast.AssignStmt); ok && as.Tok == token.DEFINE && len(as.Lhs) == 1 {
			if id, ok := as.Lhs[0].(*ast.Ident); ok {
				alloc = id.Name
				break
			}
		}
	}
	switch {
	case alloc != "" && len(ptrParams) <= 1:
		t.roles[alloc] = ".node"
		if len(ptrParams) == 1 {
			t.roles[ptrParams[0]] = ".mark"
		}
	case alloc == "" && len(ptrParams) <= 2:
		for i, p := range ptrParams {
			t.roles[p] = []string{".node", ".mark"}[i]
		}
	default:
		return "", fmt.Errorf("%s: unexpected parameter shape", s.Func)
	}
	var items []string
	for _, st := range fd.Body.List {
		x, err := t.stmt(st)
		if err != nil {
			return "", err
		}
		items = append(items, x)
	}
	src := strings.Join(c.stmtList(fd.Body), " ; ")
	return fmt.Sprintf("/-- `%s`: %s -/\ndef %s : List Stmt := [\n  %s]\n", s.Func, strings.ReplaceAll(src, "-/", "- /"), s.Name, strings.Join(items, ",\n  ")), nil
}

// xlistValueWrites counts, over the whole package, the statements that assign to a `.Value` field
// (composite literals that initialise a fresh node are not assignments).
func xlistValueWrites(c *Ctx, s *Site) (string, error) {
	files, err := c.files(s.Pkg)
	if err != nil {
		return "", err
	}
	n := 0
	isValue := func(x ast.Expr) bool {
		sel, ok := x.(*ast.SelectorExpr)
		return ok && sel.Sel.Name == "Value"
	}
	for _, f := range files {
		ast.Inspect(f, func(x ast.Node) bool {
			switch y := x.(type) {
			case *ast.AssignStmt:
				for _, l := range y.Lhs {
					if isValue(l) {
						n++
					}
				}
			case *ast.IncDecStmt:
				if isValue(y.X) {
					n++
				}
			case *ast.UnaryExpr:
				if y.Op == token.AND && isValue(y.X) {
					n++ // address taken: could be written through
				}
			}
			return true
		})
	}
	return fmt.Sprintf("/-- number of statements in package xlist that assign to (or take the address of) a `.Value` field -/\ndef %s : Nat := %d\n", s.Name, n), nil
}

func xlistAccessor(kind string) func(c *Ctx, s *Site) (string, error) {
	return func(c *Ctx, s *Site) (string, error) {
		f := c.xlAccessor(s.Func)
		switch kind {
		case "list":
			if f == "front" || f == "back" {
				return fmt.Sprintf("/-- `%s` returns `l.%s` -/\ndef %s : PExpr := .%s\n", s.Func, f, s.Name, f), nil
			}
		case "node":
			if f == "prev" || f == "next" {
				return fmt.Sprintf("/-- `%s` returns `n.%s` -/\ndef %s : Fld := .%s\n", s.Func, f, s.Name, f), nil
			}
		case "size":
			return fmt.Sprintf("/-- `%s` returns `l.size` -/\ndef %s : Bool := %v\n", s.Func, s.Name, f == "size"), nil
		}
		return "", fmt.Errorf("%s is not a one-line pointer-receiver accessor of the expected field (returns %q)", s.Func, f)
	}
}

func init() {
	const pkg = "container/xlist"
	const mod = "XList"
	register(Site{Module: mod, Pkg: pkg, Name: "vocabulary", Kind: Custom,
		Custom: func(c *Ctx, s *Site) (string, error) { return xlistVocabulary, nil }})
	for _, p := range [][2]string{
		{"List.PushFront", "pushFrontStmts"}, {"List.PushBack", "pushBackStmts"},
		{"List.InsertBefore", "insertBeforeStmts"}, {"List.InsertAfter", "insertAfterStmts"},
		{"List.Remove", "removeStmts"}, {"List.remove", "innerRemoveStmts"},
		{"List.MoveBefore", "moveBeforeStmts"}, {"List.MoveAfter", "moveAfterStmts"},
		{"List.MoveToFront", "moveToFrontStmts"}, {"List.MoveToBack", "moveToBackStmts"},
		{"List.Clear", "clearStmts"},
	} {
		register(Site{Module: mod, Pkg: pkg, Func: p[0], Name: p[1], Kind: Custom, Custom: xlistProgram})
	}
	register(
		Site{Module: mod, Pkg: pkg, Func: "List.Front", Name: "frontReturns", Kind: Custom, Custom: xlistAccessor("list")},
		Site{Module: mod, Pkg: pkg, Func: "List.Back", Name: "backReturns", Kind: Custom, Custom: xlistAccessor("list")},
		Site{Module: mod, Pkg: pkg, Func: "List.Len", Name: "lenReturnsSize", Kind: Custom, Custom: xlistAccessor("size")},
		Site{Module: mod, Pkg: pkg, Func: "Node.Next", Name: "nextReturns", Kind: Custom, Custom: xlistAccessor("node")},
		Site{Module: mod, Pkg: pkg, Func: "Node.Prev", Name: "prevReturns", Kind: Custom, Custom: xlistAccessor("node")},
		Site{Module: mod, Pkg: pkg, Name: "valueWrites", Kind: Custom, Custom: xlistValueWrites},
	)
}
