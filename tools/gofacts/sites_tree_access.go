package main

// container/tree, memory-access level -> Juniper.Gen.TreeAccess.
// Consumed by Model/BTreeAccess.lean (the concurrent clause of C01): the *statement order* of the
// operations that take part in "concurrent Puts of present keys + reads of other keys". The model
// interprets these statement lists as sequences of shared-memory accesses, so moving e.g. `t.gen++`
// in front of Put's loop (or into its overwrite branch) changes the access sequence of a present-key
// Put and the race-freedom theorems of Props/C01Race.lean stop compiling.

func init() {
	const pkg = "container/tree"
	const mod = "TreeAccess"
	sl := func(fn, name, sel string) Site {
		return Site{Module: mod, Pkg: pkg, Func: fn, Name: name, Kind: StmtList, Sel: sel}
	}
	register(
		// whole bodies, flattened in source order (compound statements with `if c {` / `for {` / `}` markers)
		sl("btree.Put", "putStmts", ""),
		sl("btree.Get", "getStmts", ""),
		sl("btree.Contains", "containsStmts", ""),
		sl("btree.searchNode", "searchNodeStmts", ""),
		// the overwrite branch of Put: what a Put of a present key executes after the descent
		sl("btree.Put", "putFoundStmts", "for[0]/if[0].body"),
		// the found branches of Get / Contains
		sl("btree.Get", "getFoundStmts", "for[0]/if[0].body"),
		sl("btree.Contains", "containsFoundStmts", "for[0]/if[0].body"),
		// non-full leaf insertion (only used by the negative witness: a Put of an absent key races)
		sl("btree.insertIntoLeaf", "insertIntoLeafStmts", ""),
		// a whole Range / RangeReverse / Iterate reader: the seek, then per Next the done check, the lost()
		// check, the in-range test on the key, the value read, the cursor move
		sl("forwardIterator.Next", "fwdNextStmts", ""),
		sl("backwardIterator.Next", "bwdNextStmts", ""),
		sl("cursor.lost", "lostStmts", ""),
		sl("cursor.valueUnchecked", "valueUncheckedStmts", ""),
		sl("cursor.Key", "cursorKeyStmts", ""),
		sl("cursor.Next", "cursorNextStmts", ""),
		sl("cursor.Prev", "cursorPrevStmts", ""),
		sl("cursor.seek", "seekStmts", ""),
		sl("cursor.find", "findStmts", ""),
		sl("cursor.SeekFirst", "seekFirstStmts", ""),
		sl("cursor.SeekLast", "seekLastStmts", ""),
		sl("cursor.SeekFirstGreaterOrEqual", "seekGEStmts", ""),
		sl("cursor.SeekFirstGreater", "seekGTStmts", ""),
		sl("cursor.SeekLastLessOrEqual", "seekLEStmts", ""),
		sl("cursor.SeekLastLess", "seekLTStmts", ""),
		sl("leftmostLeaf", "leftmostLeafStmts", ""),
		sl("rightmostLeaf", "rightmostLeafStmts", ""),
		sl("node.leaf", "leafStmts", ""),
		sl("btree.Cursor", "cursorCtorStmts", ""),
		Site{Module: mod, Pkg: "xslices", Func: "Index", Name: "indexStmts", Kind: StmtList, Sel: ""},
	)
}
