package main

// xsync.Watchable / Future / Lazy / Map -> Juniper.Gen.Watch. Consumed by Model/Watch.lean (C18).
//
//   - Map: the WHOLE body of Load / LoadAndDelete / LoadOrStore / Swap classified into a list of `MOp`
//     (the call into sync.Map, the `if !ok { var zero V; return zero, false }` guard, the assertion
//     back to V with its form: plain `x.(V)` panics on a nil interface, comma-ok `v, _ = x.(V)` yields
//     the zero value, the return) — any other statement is `.other text`; the closure that `Range`
//     hands to sync.Map.Range classified into a list of `ROp` (assertions of key and value, and
//     whether the closure's result IS the callback's result); that the remaining methods forward to
//     sync.Map unchanged; the declared type of the field `m`;
//   - Watchable: the classified statements of Set and Value; the declared types of the fields of
//     Watchable and watchableInner (the model's atomicity assumption is about `atomic.Pointer`) and
//     that `atomic` is the package sync/atomic;
//   - Future: the classified statements of Fill / Wait, the select table of WaitContext with the
//     classified arm bodies, the capacity of the channel, the body of NewFuture, the field types;
//   - Lazy: that it is sync.OnceValue.

import (
	"fmt"
	"go/ast"
	"go/token"
	"sort"
	"strconv"
	"strings"
)

func init() {
	const pkg = "xsync"
	const mod = "Watch"
	register(
		Site{Module: mod, Pkg: pkg, Kind: Custom, Name: "Types", Custom: func(c *Ctx, s *Site) (string, error) {
			return "/-- form of a type assertion back to the type parameter -/\n" +
				"inductive AssertForm where\n  | plain | commaOk | absent\n  deriving DecidableEq, Repr\n\n" +
				"/-- a statement of Watchable.Set / Value, Future.Fill / Wait / WaitContext, classified by gofacts -/\n" +
				"inductive WOp where\n" +
				"  | alloc          -- newInner := &watchableInner[T]{t: t, c: make(chan struct{})}\n" +
				"  | swap           -- oldInner := w.p.Swap(newInner)\n" +
				"  | ifOldNonNil | ifOldNil  -- if oldInner != nil { / if oldInner == nil {\n" +
				"  | closeOld       -- close(oldInner.c)\n" +
				"  | load           -- inner := w.p.Load()\n" +
				"  | ifInnerNil     -- if inner == nil {\n" +
				"  | mkChan         -- c := make(chan struct{})\n" +
				"  | mkEmpty        -- emptyInner := &watchableInner[T]{c: c}\n" +
				"  | ifCas          -- if w.p.CompareAndSwap(nil, emptyInner) {\n" +
				"  | declZero       -- var zero T\n" +
				"  | retZeroC       -- return zero, c\n" +
				"  | reload         -- inner = w.p.Load()\n" +
				"  | retInner       -- return inner.t, inner.c\n" +
				"  | endBlock       -- }\n" +
				"  | storeX | closeC | recvC | retX | retXNil | retZeroCtxErr | sel\n" +
				"  | other (text : String)\n" +
				"  deriving DecidableEq, Repr\n\n" +
				"/-- a statement of Map.Load / LoadAndDelete / LoadOrStore / Swap, classified by gofacts -/\n" +
				"inductive MOp where\n" +
				"  | call                          -- x_, ok := m.m.<Method>(<the method's own arguments>)\n" +
				"  | guardAbsent                   -- if !ok { var zero V; return zero, false }\n" +
				"  | assertV (form : AssertForm)   -- r, _ = x_.(V)  (commaOk)  /  the x_.(V) inside `return x_.(V), ok`  (plain)\n" +
				"  | ret                           -- return r, ok\n" +
				"  | other (text : String)\n" +
				"  deriving DecidableEq, Repr\n\n" +
				"/-- a statement of the closure that Map.Range hands to sync.Map.Range, classified by gofacts -/\n" +
				"inductive ROp where\n" +
				"  | assertKey (form : AssertForm) -- key, _ := key_.(K)  /  key := key_.(K)  /  inline key_.(K)\n" +
				"  | assertVal (form : AssertForm) -- value, _ := value_.(V)  / …\n" +
				"  | retCallback                   -- return f(key, value): the closure's result is the callback's\n" +
				"  | callDiscard                   -- f(key, value) as a statement: the callback's result is dropped\n" +
				"  | retConst (b : Bool)           -- return true / return false\n" +
				"  | other (text : String)\n" +
				"  deriving DecidableEq, Repr\n", nil
		}},
		// typed map
		Site{Module: mod, Pkg: pkg, Func: "Map.Load", Name: "loadBody", Kind: Custom,
			Custom: mapBody(mapTexts{"value_,ok:=m.m.Load(key)", "!ok", "value,_=value_.(V)", "returnvalue,ok", "returnvalue_.(V),ok"})},
		Site{Module: mod, Pkg: pkg, Func: "Map.LoadAndDelete", Name: "loadAndDeleteBody", Kind: Custom,
			Custom: mapBody(mapTexts{"value_,ok:=m.m.LoadAndDelete(key)", "!ok", "value,_=value_.(V)", "returnvalue,ok", "returnvalue_.(V),ok"})},
		Site{Module: mod, Pkg: pkg, Func: "Map.LoadOrStore", Name: "loadOrStoreBody", Kind: Custom,
			Custom: mapBody(mapTexts{"actual_,loaded:=m.m.LoadOrStore(key,value)", "!loaded", "actual,_=actual_.(V)", "returnactual,loaded", "returnactual_.(V),loaded"})},
		Site{Module: mod, Pkg: pkg, Func: "Map.Swap", Name: "swapBody", Kind: Custom,
			Custom: mapBody(mapTexts{"previousUntyped,loaded:=m.m.Swap(key,value)", "!loaded", "previous,_=previousUntyped.(V)", "returnprevious,loaded", "returnpreviousUntyped.(V),loaded"})},
		Site{Module: mod, Pkg: pkg, Func: "Map.Range", Name: "rangeCalls", Kind: Custom, Custom: rangeCalls},
		Site{Module: mod, Pkg: pkg, Func: "Map.Range", Name: "rangeBody", Kind: Custom, Custom: rangeBody},
		Site{Module: mod, Pkg: pkg, Name: "mapFields", Kind: Custom, Custom: fieldTypes("Map")},
		Site{Module: mod, Pkg: pkg, Name: "mapImportsSync", Kind: Custom, Custom: importsPlain("Map", "sync")},
		Site{Module: mod, Pkg: pkg, Func: "Map.Store", Name: "storeForwards", Kind: Custom, Custom: wholeBody("m.m.Store(key,value)")},
		Site{Module: mod, Pkg: pkg, Func: "Map.Delete", Name: "deleteForwards", Kind: Custom, Custom: wholeBody("m.m.Delete(key)")},
		Site{Module: mod, Pkg: pkg, Func: "Map.CompareAndSwap", Name: "casForwards", Kind: Custom, Custom: wholeBody("returnm.m.CompareAndSwap(key,old,new)")},
		Site{Module: mod, Pkg: pkg, Func: "Map.CompareAndDelete", Name: "cadForwards", Kind: Custom, Custom: wholeBody("returnm.m.CompareAndDelete(key,old)")},
		// Watchable
		Site{Module: mod, Pkg: pkg, Func: "Watchable.Set", Name: "setOps", Kind: Custom, Custom: watchOps},
		Site{Module: mod, Pkg: pkg, Func: "Watchable.Value", Name: "valueOps", Kind: Custom, Custom: watchOps},
		Site{Module: mod, Pkg: pkg, Name: "watchableFields", Kind: Custom, Custom: fieldTypes("Watchable")},
		Site{Module: mod, Pkg: pkg, Name: "watchableInnerFields", Kind: Custom, Custom: fieldTypes("watchableInner")},
		Site{Module: mod, Pkg: pkg, Name: "watchableImportsAtomic", Kind: Custom, Custom: importsPlain("Watchable", "sync/atomic")},
		// Future
		Site{Module: mod, Pkg: pkg, Func: "NewFuture", Name: "futureChanArgs", Kind: Custom, Custom: func(c *Ctx, s *Site) (string, error) {
			fd, err := c.FindFunc(s.Pkg, s.Func)
			if err != nil {
				return "", err
			}
			n, err := c.SelectPath(fd, "call[make][0]")
			if err != nil {
				return "", err
			}
			return fmt.Sprintf("/-- number of arguments of the `make(chan …)` in `NewFuture` (1 = unbuffered) -/\ndef %s : Nat := %d\n", s.Name, len(n.(*ast.CallExpr).Args)), nil
		}},
		Site{Module: mod, Pkg: pkg, Func: "NewFuture", Name: "newFutureBody", Kind: Custom, Custom: wholeBody("return&Future[T]{c:make(chanstruct{}),}")},
		Site{Module: mod, Pkg: pkg, Name: "futureFields", Kind: Custom, Custom: fieldTypes("Future")},
		Site{Module: mod, Pkg: pkg, Func: "Future.Fill", Name: "fillOps", Kind: Custom, Custom: watchOps},
		Site{Module: mod, Pkg: pkg, Func: "Future.Wait", Name: "futureWaitOps", Kind: Custom, Custom: watchOps},
		Site{Module: mod, Pkg: pkg, Func: "Future.WaitContext", Name: "waitContextOps", Kind: Custom, Custom: watchOps},
		Site{Module: mod, Pkg: pkg, Func: "Future.WaitContext", Name: "waitContextArms", Kind: Select, Sel: "select[0]"},
		Site{Module: mod, Pkg: pkg, Func: "Future.WaitContext", Name: "waitContextArmBodies", Kind: Custom, Custom: watchArmBodies},
		// Lazy
		Site{Module: mod, Pkg: pkg, Func: "Lazy", Name: "lazyIsOnceValue", Kind: Custom, Custom: wholeBody("returnsync.OnceValue(f)")},
		// method sets (audit C18 F8): the models speak about the methods that exist today; a new method with access to
		// the private field (a `Watchable.Reset` storing nil, a second way to close `Future.c`) is outside them
		Site{Module: mod, Pkg: pkg, Name: "mapMethods", Kind: Custom, Custom: methodsOf("Map")},
		Site{Module: mod, Pkg: pkg, Name: "watchableMethods", Kind: Custom, Custom: methodsOf("Watchable")},
		Site{Module: mod, Pkg: pkg, Name: "futureMethods", Kind: Custom, Custom: methodsOf("Future")},
	)
}

// methodsOf: the names of all methods declared on type typ (pointer or value receiver, exported or not) in the files
// of the package that the present toolchain builds, sorted.
func methodsOf(typ string) func(c *Ctx, s *Site) (string, error) {
	return func(c *Ctx, s *Site) (string, error) {
		files, err := c.files(s.Pkg)
		if err != nil {
			return "", err
		}
		var names []string
		for _, f := range files {
			for _, d := range f.Decls {
				if fd, ok := d.(*ast.FuncDecl); ok && recvName(fd) == typ {
					names = append(names, fd.Name.Name)
				}
			}
		}
		sort.Strings(names)
		var rows []string
		for _, n := range names {
			rows = append(rows, leanString(n))
		}
		return fmt.Sprintf("/-- all methods declared on `%s` (any receiver kind), sorted -/\ndef %s : List String := [%s]\n", typ, s.Name, strings.Join(rows, ", ")), nil
	}
}

// mapTexts: the (space-free) statement texts of one typed-map method that mapBody recognises.
type mapTexts struct{ call, guardCond, assertCommaOk, ret, retPlain string }

// mapBody classifies EVERY top-level statement of a typed-map method body.
func mapBody(tx mapTexts) func(c *Ctx, s *Site) (string, error) {
	return func(c *Ctx, s *Site) (string, error) {
		fd, err := c.FindFunc(s.Pkg, s.Func)
		if err != nil {
			return "", err
		}
		var ops []string
		for _, st := range fd.Body.List {
			txt := c.Text(st)
			switch {
			case txt == tx.call:
				ops = append(ops, ".call")
			case txt == tx.assertCommaOk:
				ops = append(ops, ".assertV .commaOk")
			case txt == tx.ret:
				ops = append(ops, ".ret")
			case txt == tx.retPlain:
				ops = append(ops, ".assertV .plain", ".ret")
			default:
				if ifs, ok := st.(*ast.IfStmt); ok && ifs.Init == nil && ifs.Else == nil && c.Text(ifs.Cond) == tx.guardCond &&
					len(ifs.Body.List) == 2 && c.Text(ifs.Body.List[0]) == "varzeroV" && c.Text(ifs.Body.List[1]) == "returnzero,false" {
					ops = append(ops, ".guardAbsent")
				} else {
					ops = append(ops, ".other "+leanString(c.Pretty(st)))
				}
			}
		}
		return fmt.Sprintf("/-- statements of `%s`, classified (`.call` = `%s`) -/\ndef %s : List MOp := [%s]\n", s.Func, tx.call, s.Name, strings.Join(ops, ", ")), nil
	}
}

// rangeClosure: the body of Map.Range must be the single statement `m.m.Range(func(key_, value_ interface{}) bool {…})`;
// returns the closure.
func rangeClosure(c *Ctx, s *Site) (*ast.FuncLit, bool, error) {
	fd, err := c.FindFunc(s.Pkg, s.Func)
	if err != nil {
		return nil, false, err
	}
	var lit *ast.FuncLit
	ast.Inspect(fd.Body, func(n ast.Node) bool {
		if l, ok := n.(*ast.FuncLit); ok && lit == nil {
			lit = l
			return false
		}
		return true
	})
	if lit == nil {
		return nil, false, nil
	}
	exact := false
	if len(fd.Body.List) == 1 {
		if es, ok := fd.Body.List[0].(*ast.ExprStmt); ok {
			if call, ok := es.X.(*ast.CallExpr); ok && c.Text(call.Fun) == "m.m.Range" && len(call.Args) == 1 && call.Args[0] == ast.Expr(lit) {
				p := fd.Type.Params.List
				exact = c.Text(lit.Type) == "func(key_,value_interface{})bool" && len(p) == 1 && len(p[0].Names) == 1 &&
					p[0].Names[0].Name == "f" && c.Text(p[0].Type) == "func(keyK,valueV)bool"
			}
		}
	}
	return lit, exact, nil
}

func rangeCalls(c *Ctx, s *Site) (string, error) {
	_, exact, err := rangeClosure(c, s)
	if err != nil {
		return "", err
	}
	return fmt.Sprintf("/-- the body of `%s` is exactly `m.m.Range(func(key_, value_ interface{}) bool { … })` and its parameter is `f func(key K, value V) bool` -/\ndef %s : Bool := %v\n", s.Func, s.Name, exact), nil
}

// rangeBody classifies every statement of the closure handed to sync.Map.Range.
func rangeBody(c *Ctx, s *Site) (string, error) {
	lit, _, err := rangeClosure(c, s)
	if err != nil {
		return "", err
	}
	if lit == nil {
		return fmt.Sprintf("/-- `%s` hands no closure to sync.Map.Range -/\ndef %s : List ROp := [.other \"no closure\"]\n", s.Func, s.Name), nil
	}
	// names of the closure's two parameters (key_, value_ today; key, value before the fix of D7)
	var pn []string
	for _, f := range lit.Type.Params.List {
		for _, n := range f.Names {
			pn = append(pn, n.Name)
		}
	}
	if len(pn) != 2 {
		pn = []string{"key_", "value_"}
	}
	kAssert, vAssert := pn[0]+".(K)", pn[1]+".(V)"
	var ops []string
	// an argument of the call of f: the asserted local, or an inline plain assertion of the parameter
	arg := func(x ast.Expr, local, inline, op string) (string, bool) {
		switch c.Text(x) {
		case local:
			if local == pn[0] || local == pn[1] {
				return "", false // the raw interface parameter, not an asserted local
			}
			return "", true
		case inline:
			return op + " .plain", true
		}
		return "", false
	}
	callF := func(x ast.Expr) ([]string, bool) {
		call, ok := x.(*ast.CallExpr)
		if !ok || c.Text(call.Fun) != "f" || len(call.Args) != 2 || call.Ellipsis.IsValid() {
			return nil, false
		}
		a, ok1 := arg(call.Args[0], "key", kAssert, ".assertKey")
		b, ok2 := arg(call.Args[1], "value", vAssert, ".assertVal")
		if !ok1 || !ok2 {
			return nil, false
		}
		var pre []string
		if a != "" {
			pre = append(pre, a)
		}
		if b != "" {
			pre = append(pre, b)
		}
		return pre, true
	}
	for _, st := range lit.Body.List {
		txt := c.Text(st)
		switch {
		case txt == "key,_:="+kAssert:
			ops = append(ops, ".assertKey .commaOk")
			continue
		case txt == "key:="+kAssert:
			ops = append(ops, ".assertKey .plain")
			continue
		case txt == "value,_:="+vAssert:
			ops = append(ops, ".assertVal .commaOk")
			continue
		case txt == "value:="+vAssert:
			ops = append(ops, ".assertVal .plain")
			continue
		case txt == "returntrue":
			ops = append(ops, ".retConst true")
			continue
		case txt == "returnfalse":
			ops = append(ops, ".retConst false")
			continue
		}
		if rs, ok := st.(*ast.ReturnStmt); ok && len(rs.Results) == 1 {
			if pre, ok := callF(rs.Results[0]); ok {
				ops = append(ops, pre...)
				ops = append(ops, ".retCallback")
				continue
			}
		}
		if es, ok := st.(*ast.ExprStmt); ok {
			if pre, ok := callF(es.X); ok {
				ops = append(ops, pre...)
				ops = append(ops, ".callDiscard")
				continue
			}
		}
		ops = append(ops, ".other "+leanString(c.Pretty(st)))
	}
	return fmt.Sprintf("/-- statements of the closure `%s` hands to sync.Map.Range, classified -/\ndef %s : List ROp := [%s]\n", s.Func, s.Name, strings.Join(ops, ", ")), nil
}

// fieldTypes: the fields of a struct type with their declared types, in order.
func fieldTypes(typ string) func(c *Ctx, s *Site) (string, error) {
	return func(c *Ctx, s *Site) (string, error) {
		st, err := c.findStruct(s.Pkg, typ)
		if err != nil {
			return "", err
		}
		var rows []string
		for _, f := range st.Fields.List {
			t := c.Pretty(f.Type)
			if len(f.Names) == 0 {
				rows = append(rows, fmt.Sprintf("(%s, %s)", leanString("<embedded>"), leanString(t)))
			}
			for _, n := range f.Names {
				rows = append(rows, fmt.Sprintf("(%s, %s)", leanString(n.Name), leanString(t)))
			}
		}
		return fmt.Sprintf("/-- fields of `type %s struct` with their declared types -/\ndef %s : List (String × String) := [%s]\n", typ, s.Name, strings.Join(rows, ", ")), nil
	}
}

// importsPlain: the file that declares struct type typ imports path without renaming it, and declares
// no package-level identifier that could shadow the package name.
func importsPlain(typ, path string) func(c *Ctx, s *Site) (string, error) {
	return func(c *Ctx, s *Site) (string, error) {
		files, err := c.files(s.Pkg)
		if err != nil {
			return "", err
		}
		base := path[strings.LastIndex(path, "/")+1:]
		found, ok := false, false
		shadow := false
		for _, f := range files {
			declares := false
			for _, d := range f.Decls {
				switch x := d.(type) {
				case *ast.GenDecl:
					for _, sp := range x.Specs {
						switch y := sp.(type) {
						case *ast.TypeSpec:
							if y.Name.Name == typ {
								declares = true
							}
							if y.Name.Name == base {
								shadow = true
							}
						case *ast.ValueSpec:
							for _, n := range y.Names {
								if n.Name == base {
									shadow = true
								}
							}
						}
					}
				case *ast.FuncDecl:
					if x.Recv == nil && x.Name.Name == base {
						shadow = true
					}
				}
			}
			if !declares {
				continue
			}
			found = true
			for _, im := range f.Imports {
				if im.Path.Value == strconv.Quote(path) && im.Name == nil {
					ok = true
				}
			}
		}
		if !found {
			return "", fmt.Errorf("type %s not found in %s", typ, s.Pkg)
		}
		return fmt.Sprintf("/-- the file declaring `%s` imports %q under its own name (and the package declares no `%s`) -/\ndef %s : Bool := %v\n", typ, path, base, s.Name, ok && !shadow), nil
	}
}

// wholeBody: the function body is exactly the one statement with the given (space-free) text.
func wholeBody(text string) func(c *Ctx, s *Site) (string, error) {
	return func(c *Ctx, s *Site) (string, error) {
		fd, err := c.FindFunc(s.Pkg, s.Func)
		if err != nil {
			return "", err
		}
		ok := len(fd.Body.List) == 1 && c.Text(fd.Body.List[0]) == text
		return fmt.Sprintf("/-- the body of `%s` is exactly `%s` -/\ndef %s : Bool := %v\n", s.Func, text, s.Name, ok), nil
	}
}

func classifyWatchStmt(c *Ctx, st ast.Stmt) (string, bool) {
	txt := c.Text(st)
	switch txt {
	case "newInner:=&watchableInner[T]{t:t,c:make(chanstruct{}),}", "newInner:=&watchableInner[T]{t:t,c:make(chanstruct{})}":
		return ".alloc", true
	case "oldInner:=w.p.Swap(newInner)":
		return ".swap", true
	case "close(oldInner.c)":
		return ".closeOld", true
	case "inner:=w.p.Load()":
		return ".load", true
	case "c:=make(chanstruct{})":
		return ".mkChan", true
	case "emptyInner:=&watchableInner[T]{c:c,}", "emptyInner:=&watchableInner[T]{c:c}":
		return ".mkEmpty", true
	case "varzeroT":
		return ".declZero", true
	case "returnzero,c":
		return ".retZeroC", true
	case "inner=w.p.Load()":
		return ".reload", true
	case "returninner.t,inner.c":
		return ".retInner", true
	case "f.x=x":
		return ".storeX", true
	case "close(f.c)":
		return ".closeC", true
	case "<-f.c":
		return ".recvC", true
	case "returnf.x":
		return ".retX", true
	case "returnf.x,nil":
		return ".retXNil", true
	case "returnzero,ctx.Err()":
		return ".retZeroCtxErr", true
	}
	if _, ok := st.(*ast.SelectStmt); ok {
		return ".sel", true
	}
	return "", false
}

func flattenWatch(c *Ctx, list []ast.Stmt, out *[]string) {
	for _, st := range list {
		if ifs, ok := st.(*ast.IfStmt); ok && ifs.Init == nil && ifs.Else == nil {
			head := ""
			switch c.Text(ifs.Cond) {
			case "oldInner!=nil":
				head = ".ifOldNonNil"
			case "oldInner==nil":
				head = ".ifOldNil"
			case "inner==nil":
				head = ".ifInnerNil"
			case "w.p.CompareAndSwap(nil,emptyInner)":
				head = ".ifCas"
			}
			if head != "" {
				*out = append(*out, head)
				flattenWatch(c, ifs.Body.List, out)
				*out = append(*out, ".endBlock")
				continue
			}
		}
		if op, ok := classifyWatchStmt(c, st); ok {
			*out = append(*out, op)
		} else {
			*out = append(*out, ".other "+leanString(c.Pretty(st)))
		}
	}
}

func watchOps(c *Ctx, s *Site) (string, error) {
	fd, err := c.FindFunc(s.Pkg, s.Func)
	if err != nil {
		return "", err
	}
	var ops []string
	flattenWatch(c, fd.Body.List, &ops)
	return fmt.Sprintf("/-- statements of `%s`, classified (blocks flattened) -/\ndef %s : List WOp := [%s]\n", s.Func, s.Name, strings.Join(ops, ", ")), nil
}

func watchArmBodies(c *Ctx, s *Site) (string, error) {
	fd, err := c.FindFunc(s.Pkg, s.Func)
	if err != nil {
		return "", err
	}
	n, err := c.SelectPath(fd, "select[0]")
	if err != nil {
		return "", err
	}
	sel := n.(*ast.SelectStmt)
	var rows []string
	for _, cl := range sel.Body.List {
		cc := cl.(*ast.CommClause)
		arm, err := c.selectArms(&ast.SelectStmt{Body: &ast.BlockStmt{List: []ast.Stmt{cc}}})
		if err != nil {
			return "", err
		}
		arm = strings.TrimSuffix(strings.TrimPrefix(arm, "["), "]")
		var body []string
		for _, st := range cc.Body {
			if d, ok := st.(*ast.DeclStmt); ok {
				if gd, ok := d.Decl.(*ast.GenDecl); ok && gd.Tok == token.VAR && c.Text(st) == "varzeroT" {
					body = append(body, ".declZero")
					continue
				}
			}
			if op, ok := classifyWatchStmt(c, st); ok {
				body = append(body, op)
			} else {
				body = append(body, ".other "+leanString(c.Pretty(st)))
			}
		}
		rows = append(rows, fmt.Sprintf("(%s, [%s])", arm, strings.Join(body, ", ")))
	}
	return fmt.Sprintf("/-- arms of the select in `%s` with their classified bodies -/\ndef %s : List (Arm × List WOp) := [%s]\n", s.Func, s.Name, strings.Join(rows, ",\n  ")), nil
}
