package main

// xsync.Watchable / Future / Lazy / Map -> Juniper.Gen.Watch. Consumed by Model/Watch.lean (C18).
//
//   - Map: per method the form of the type assertion back to V (plain `x.(V)` panics on a nil
//     interface, comma-ok `v, _ := x.(V)` yields the zero value), whether an `if !ok` guard returns the
//     zero value first, and that the remaining methods forward to sync.Map unchanged;
//   - Watchable: the classified statements of Set and Value;
//   - Future: the classified statements of Fill / Wait, the select table of WaitContext with the
//     classified arm bodies, the capacity of the channel;
//   - Lazy: that it is sync.OnceValue.

import (
	"fmt"
	"go/ast"
	"go/token"
	"strings"
)

func init() {
	const pkg = "xsync"
	const mod = "Watch"
	register(
		Site{Module: mod, Pkg: pkg, Kind: Custom, Name: "Types", Custom: func(c *Ctx, s *Site) (string, error) {
			return "/-- form of a type assertion back to the type parameter -/\n" +
				"inductive AssertForm where\n  | plain | commaOk | absent\n  deriving DecidableEq, Repr\n\n" +
				"/-- a statement of Watchable.Set / Value, Future.Fill / Wait / WaitContext, classified by gofacts -/\n" +
				"inductive WOp where\n" +
				"  | alloc          -- newInner := &watchableInner[T]{t: t, c: make(chan struct{})}\n" +
				"  | swap           -- oldInner := w.p.Swap(newInner)\n" +
				"  | ifOldNonNil | ifOldNil  -- if oldInner != nil { / if oldInner == nil {\n" +
				"  | closeOld       -- close(oldInner.c)\n" +
				"  | load           -- inner := w.p.Load()\n" +
				"  | ifInnerNil     -- if inner == nil {\n" +
				"  | mkChan         -- c := make(chan struct{})\n" +
				"  | mkEmpty        -- emptyInner := &watchableInner[T]{c: c}\n" +
				"  | ifCas          -- if w.p.CompareAndSwap(nil, emptyInner) {\n" +
				"  | declZero       -- var zero T\n" +
				"  | retZeroC       -- return zero, c\n" +
				"  | reload         -- inner = w.p.Load()\n" +
				"  | retInner       -- return inner.t, inner.c\n" +
				"  | endBlock       -- }\n" +
				"  | storeX | closeC | recvC | retX | retXNil | retZeroCtxErr | sel\n" +
				"  | other (text : String)\n" +
				"  deriving DecidableEq, Repr\n", nil
		}},
		// typed map
		Site{Module: mod, Pkg: pkg, Func: "Map.Load", Name: "loadAssert", Kind: Custom, Custom: assertForm("V")},
		Site{Module: mod, Pkg: pkg, Func: "Map.Load", Name: "loadGuard", Kind: Custom, Custom: absentGuard},
		Site{Module: mod, Pkg: pkg, Func: "Map.LoadAndDelete", Name: "loadAndDeleteAssert", Kind: Custom, Custom: assertForm("V")},
		Site{Module: mod, Pkg: pkg, Func: "Map.LoadAndDelete", Name: "loadAndDeleteGuard", Kind: Custom, Custom: absentGuard},
		Site{Module: mod, Pkg: pkg, Func: "Map.LoadOrStore", Name: "loadOrStoreAssert", Kind: Custom, Custom: assertForm("V")},
		Site{Module: mod, Pkg: pkg, Func: "Map.LoadOrStore", Name: "loadOrStoreGuard", Kind: Custom, Custom: absentGuard},
		Site{Module: mod, Pkg: pkg, Func: "Map.Swap", Name: "swapAssert", Kind: Custom, Custom: assertForm("V")},
		Site{Module: mod, Pkg: pkg, Func: "Map.Swap", Name: "swapGuard", Kind: Custom, Custom: absentGuard},
		Site{Module: mod, Pkg: pkg, Func: "Map.Range", Name: "rangeValueAssert", Kind: Custom, Custom: assertForm("V")},
		Site{Module: mod, Pkg: pkg, Func: "Map.Range", Name: "rangeKeyAssert", Kind: Custom, Custom: assertForm("K")},
		Site{Module: mod, Pkg: pkg, Func: "Map.Load", Name: "loadCalls", Kind: Present, Text: "value_, ok := m.m.Load(key)"},
		Site{Module: mod, Pkg: pkg, Func: "Map.LoadAndDelete", Name: "loadAndDeleteCalls", Kind: Present, Text: "value_, ok := m.m.LoadAndDelete(key)"},
		Site{Module: mod, Pkg: pkg, Func: "Map.LoadOrStore", Name: "loadOrStoreCalls", Kind: Present, Text: "actual_, loaded := m.m.LoadOrStore(key, value)"},
		Site{Module: mod, Pkg: pkg, Func: "Map.Swap", Name: "swapCalls", Kind: Present, Text: "previousUntyped, loaded := m.m.Swap(key, value)"},
		Site{Module: mod, Pkg: pkg, Func: "Map.Store", Name: "storeForwards", Kind: Custom, Custom: wholeBody("m.m.Store(key,value)")},
		Site{Module: mod, Pkg: pkg, Func: "Map.Delete", Name: "deleteForwards", Kind: Custom, Custom: wholeBody("m.m.Delete(key)")},
		Site{Module: mod, Pkg: pkg, Func: "Map.CompareAndSwap", Name: "casForwards", Kind: Custom, Custom: wholeBody("returnm.m.CompareAndSwap(key,old,new)")},
		Site{Module: mod, Pkg: pkg, Func: "Map.CompareAndDelete", Name: "cadForwards", Kind: Custom, Custom: wholeBody("returnm.m.CompareAndDelete(key,old)")},
		// Watchable
		Site{Module: mod, Pkg: pkg, Func: "Watchable.Set", Name: "setOps", Kind: Custom, Custom: watchOps},
		Site{Module: mod, Pkg: pkg, Func: "Watchable.Value", Name: "valueOps", Kind: Custom, Custom: watchOps},
		// Future
		Site{Module: mod, Pkg: pkg, Func: "NewFuture", Name: "futureChanArgs", Kind: Custom, Custom: func(c *Ctx, s *Site) (string, error) {
			fd, err := c.FindFunc(s.Pkg, s.Func)
			if err != nil {
				return "", err
			}
			n, err := c.SelectPath(fd, "call[make][0]")
			if err != nil {
				return "", err
			}
			return fmt.Sprintf("/-- number of arguments of the `make(chan …)` in `NewFuture` (1 = unbuffered) -/\ndef %s : Nat := %d\n", s.Name, len(n.(*ast.CallExpr).Args)), nil
		}},
		Site{Module: mod, Pkg: pkg, Func: "Future.Fill", Name: "fillOps", Kind: Custom, Custom: watchOps},
		Site{Module: mod, Pkg: pkg, Func: "Future.Wait", Name: "futureWaitOps", Kind: Custom, Custom: watchOps},
		Site{Module: mod, Pkg: pkg, Func: "Future.WaitContext", Name: "waitContextOps", Kind: Custom, Custom: watchOps},
		Site{Module: mod, Pkg: pkg, Func: "Future.WaitContext", Name: "waitContextArms", Kind: Select, Sel: "select[0]"},
		Site{Module: mod, Pkg: pkg, Func: "Future.WaitContext", Name: "waitContextArmBodies", Kind: Custom, Custom: watchArmBodies},
		// Lazy
		Site{Module: mod, Pkg: pkg, Func: "Lazy", Name: "lazyIsOnceValue", Kind: Custom, Custom: wholeBody("returnsync.OnceValue(f)")},
	)
}

// assertForm reports how the function asserts an interface value back to type parameter tp.
func assertForm(tp string) func(c *Ctx, s *Site) (string, error) {
	return func(c *Ctx, s *Site) (string, error) {
		fd, err := c.FindFunc(s.Pkg, s.Func)
		if err != nil {
			return "", err
		}
		forms := map[string]int{}
		commaOk := map[*ast.TypeAssertExpr]bool{}
		ast.Inspect(fd.Body, func(n ast.Node) bool {
			switch x := n.(type) {
			case *ast.AssignStmt:
				if len(x.Lhs) == 2 && len(x.Rhs) == 1 {
					if ta, ok := x.Rhs[0].(*ast.TypeAssertExpr); ok {
						commaOk[ta] = true
					}
				}
			case *ast.ValueSpec:
				if len(x.Names) == 2 && len(x.Values) == 1 {
					if ta, ok := x.Values[0].(*ast.TypeAssertExpr); ok {
						commaOk[ta] = true
					}
				}
			case *ast.TypeAssertExpr:
				if x.Type != nil && c.Text(x.Type) == tp {
					if commaOk[x] {
						forms["commaOk"]++
					} else {
						forms["plain"]++
					}
				}
			}
			return true
		})
		form := ".absent"
		switch {
		case forms["plain"] > 0:
			form = ".plain"
		case forms["commaOk"] > 0:
			form = ".commaOk"
		}
		return fmt.Sprintf("/-- how `%s` asserts the stored interface value back to `%s` -/\ndef %s : AssertForm := %s\n", s.Func, tp, s.Name, form), nil
	}
}

// absentGuard: the function starts (after the call) with `if !ok { var zero V; return zero, false }`.
func absentGuard(c *Ctx, s *Site) (string, error) {
	fd, err := c.FindFunc(s.Pkg, s.Func)
	if err != nil {
		return "", err
	}
	found := false
	for _, st := range fd.Body.List {
		ifs, ok := st.(*ast.IfStmt)
		if !ok || ifs.Else != nil {
			continue
		}
		cond := c.Text(ifs.Cond)
		if cond != "!ok" && cond != "!loaded" {
			continue
		}
		if len(ifs.Body.List) == 2 && c.Text(ifs.Body.List[0]) == "varzeroV" && c.Text(ifs.Body.List[1]) == "returnzero,false" {
			found = true
		}
	}
	return fmt.Sprintf("/-- `%s` returns `(zero, false)` early when the key is absent -/\ndef %s : Bool := %v\n", s.Func, s.Name, found), nil
}

// wholeBody: the function body is exactly the one statement with the given (space-free) text.
func wholeBody(text string) func(c *Ctx, s *Site) (string, error) {
	return func(c *Ctx, s *Site) (string, error) {
		fd, err := c.FindFunc(s.Pkg, s.Func)
		if err != nil {
			return "", err
		}
		ok := len(fd.Body.List) == 1 && c.Text(fd.Body.List[0]) == text
		return fmt.Sprintf("/-- the body of `%s` is exactly `%s` -/\ndef %s : Bool := %v\n", s.Func, text, s.Name, ok), nil
	}
}

func classifyWatchStmt(c *Ctx, st ast.Stmt) (string, bool) {
	txt := c.Text(st)
	switch txt {
	case "newInner:=&watchableInner[T]{t:t,c:make(chanstruct{}),}", "newInner:=&watchableInner[T]{t:t,c:make(chanstruct{})}":
		return ".alloc", true
	case "oldInner:=w.p.Swap(newInner)":
		return ".swap", true
	case "close(oldInner.c)":
		return ".closeOld", true
	case "inner:=w.p.Load()":
		return ".load", true
	case "c:=make(chanstruct{})":
		return ".mkChan", true
	case "emptyInner:=&watchableInner[T]{c:c,}", "emptyInner:=&watchableInner[T]{c:c}":
		return ".mkEmpty", true
	case "varzeroT":
		return ".declZero", true
	case "returnzero,c":
		return ".retZeroC", true
	case "inner=w.p.Load()":
		return ".reload", true
	case "returninner.t,inner.c":
		return ".retInner", true
	case "f.x=x":
		return ".storeX", true
	case "close(f.c)":
		return ".closeC", true
	case "<-f.c":
		return ".recvC", true
	case "returnf.x":
		return ".retX", true
	case "returnf.x,nil":
		return ".retXNil", true
	case "returnzero,ctx.Err()":
		return ".retZeroCtxErr", true
	}
	if _, ok := st.(*ast.SelectStmt); ok {
		return ".sel", true
	}
	return "", false
}

func flattenWatch(c *Ctx, list []ast.Stmt, out *[]string) {
	for _, st := range list {
		if ifs, ok := st.(*ast.IfStmt); ok && ifs.Init == nil && ifs.Else == nil {
			head := ""
			switch c.Text(ifs.Cond) {
			case "oldInner!=nil":
				head = ".ifOldNonNil"
			case "oldInner==nil":
				head = ".ifOldNil"
			case "inner==nil":
				head = ".ifInnerNil"
			case "w.p.CompareAndSwap(nil,emptyInner)":
				head = ".ifCas"
			}
			if head != "" {
				*out = append(*out, head)
				flattenWatch(c, ifs.Body.List, out)
				*out = append(*out, ".endBlock")
				continue
			}
		}
		if op, ok := classifyWatchStmt(c, st); ok {
			*out = append(*out, op)
		} else {
			*out = append(*out, ".other "+leanString(c.Pretty(st)))
		}
	}
}

func watchOps(c *Ctx, s *Site) (string, error) {
	fd, err := c.FindFunc(s.Pkg, s.Func)
	if err != nil {
		return "", err
	}
	var ops []string
	flattenWatch(c, fd.Body.List, &ops)
	return fmt.Sprintf("/-- statements of `%s`, classified (blocks flattened) -/\ndef %s : List WOp := [%s]\n", s.Func, s.Name, strings.Join(ops, ", ")), nil
}

func watchArmBodies(c *Ctx, s *Site) (string, error) {
	fd, err := c.FindFunc(s.Pkg, s.Func)
	if err != nil {
		return "", err
	}
	n, err := c.SelectPath(fd, "select[0]")
	if err != nil {
		return "", err
	}
	sel := n.(*ast.SelectStmt)
	var rows []string
	for _, cl := range sel.Body.List {
		cc := cl.(*ast.CommClause)
		arm, err := c.selectArms(&ast.SelectStmt{Body: &ast.BlockStmt{List: []ast.Stmt{cc}}})
		if err != nil {
			return "", err
		}
		arm = strings.TrimSuffix(strings.TrimPrefix(arm, "["), "]")
		var body []string
		for _, st := range cc.Body {
			if d, ok := st.(*ast.DeclStmt); ok {
				if gd, ok := d.Decl.(*ast.GenDecl); ok && gd.Tok == token.VAR && c.Text(st) == "varzeroT" {
					body = append(body, ".declZero")
					continue
				}
			}
			if op, ok := classifyWatchStmt(c, st); ok {
				body = append(body, op)
			} else {
				body = append(body, ".other "+leanString(c.Pretty(st)))
			}
		}
		rows = append(rows, fmt.Sprintf("(%s, [%s])", arm, strings.Join(body, ", ")))
	}
	return fmt.Sprintf("/-- arms of the select in `%s` with their classified bodies -/\ndef %s : List (Arm × List WOp) := [%s]\n", s.Func, s.Name, strings.Join(rows, ",\n  ")), nil
}
