package main

// container/deque -> Juniper.Gen.Deque. Consumed by Model/Deque.lean (C04, C15).

func init() {
	const pkg = "container/deque"
	const mod = "Deque"
	// state variables of the model: isNil (d.a == nil), cap (len(d.a)), front, back; len = d.Len()
	st := []Param{{"isNil", "Bool"}, {"cap", "Int"}, {"front", "Int"}, {"back", "Int"}}
	vars := map[string]string{
		"d.a==nil": "isNil", "len(d.a)": "cap", "d.front": "front", "d.back": "back",
		"d.Len()": "len", "iter.d.Len()": "len", "len(iter.d.a)": "cap", "iter.d.back": "back",
	}
	withLen := append(append([]Param{}, st...), Param{"len", "Int"})
	calls := map[string]string{"positiveMod": "positiveMod", "xmath.Max": "max"}
	e := func(fn, name, sel, typ string, ps []Param, extra map[string]string) Site {
		v := map[string]string{}
		for k, x := range vars {
			v[k] = x
		}
		for k, x := range extra {
			v[k] = x
		}
		return Site{Module: mod, Pkg: pkg, Func: fn, Name: name, Kind: Expr, Sel: sel, Type: typ, Params: ps, Vars: v, Calls: calls}
	}
	register(
		Site{Module: mod, Pkg: pkg, Func: "minSize", Name: "minSize", Kind: Const},
		Site{Module: mod, Pkg: pkg, Func: "positiveMod", Name: "positiveMod", Kind: Func, Params: []Param{{"l", "Int"}, {"d", "Int"}}},
		// Len
		e("Deque.Len", "lenEmpty", "if[0].cond", "Bool", st, nil),
		e("Deque.Len", "lenContig", "if[1].cond", "Bool", st, nil),
		e("Deque.Len", "lenContigVal", "return[1].result[0]", "Int", st, nil),
		e("Deque.Len", "lenWrapVal", "return[2].result[0]", "Int", st, nil),
		// Grow / Shrink
		e("Deque.Grow", "growExtra", "assign[extraCap][0].rhs", "Int", withLen, nil),
		e("Deque.Grow", "growCond", "if[0].cond", "Bool", []Param{{"extraCap", "Int"}, {"n", "Int"}}, map[string]string{"extraCap": "extraCap", "n": "n"}),
		e("Deque.Grow", "growArg", "call[d.resize][0].arg[0]", "Int", append(append([]Param{}, withLen...), Param{"n", "Int"}), map[string]string{"n": "n"}),
		e("Deque.Shrink", "shrinkPanic", "if[0].cond", "Bool", []Param{{"n", "Int"}}, map[string]string{"n": "n"}),
		e("Deque.Shrink", "shrinkCond", "if[1].cond", "Bool", append(append([]Param{}, withLen...), Param{"n", "Int"}), map[string]string{"n": "n"}),
		e("Deque.Shrink", "shrinkArg", "call[d.resize][0].arg[0]", "Int", append(append([]Param{}, withLen...), Param{"n", "Int"}), map[string]string{"n": "n"}),
		// maybeExpand
		e("Deque.maybeExpand", "expandCond", "if[0].cond", "Bool", withLen, nil),
		e("Deque.maybeExpand", "expandArg", "call[d.resize][0].arg[0]", "Int", withLen, nil),
		// resize
		e("Deque.resize", "resizeCopies", "if[0].cond", "Bool", st, nil),
		e("Deque.resize", "resizeContig", "if[0].body/if[0].cond", "Bool", st, nil),
		e("Deque.resize", "resizeFront", "assign[d.front][0].rhs", "Int", []Param{{"oldLen", "Int"}}, map[string]string{"oldLen": "oldLen"}),
		e("Deque.resize", "resizeBack", "assign[d.back][0].rhs", "Int", []Param{{"oldLen", "Int"}}, map[string]string{"oldLen": "oldLen"}),
		Site{Module: mod, Pkg: pkg, Func: "Deque.resize", Name: "resizeBumpsGen", Kind: Present, Text: "d.gen++"},
		Site{Module: mod, Pkg: pkg, Func: "Deque.Set", Name: "setBumpsGen", Kind: Present, Text: "d.gen++"},
		// PushFront / PushBack
		e("Deque.PushFront", "pushFrontFront", "assign[d.front][0].rhs", "Int", st, nil),
		e("Deque.PushFront", "pushFrontFixBack", "if[0].cond", "Bool", st, nil),
		Site{Module: mod, Pkg: pkg, Func: "Deque.PushFront", Name: "pushFrontBumpsGen", Kind: Present, Text: "d.gen++"},
		e("Deque.PushBack", "pushBackWasEmpty", "if[0].cond", "Bool", st, nil),
		e("Deque.PushBack", "pushBackBackEmpty", "if[0].body/assign[d.back][0].rhs", "Int", st, nil),
		e("Deque.PushBack", "pushBackBack", "if[0].else/assign[d.back][0].rhs", "Int", st, nil),
		Site{Module: mod, Pkg: pkg, Func: "Deque.PushBack", Name: "pushBackBumpsGen", Kind: Present, Text: "d.gen++"},
		// PopFront / PopBack
		e("Deque.PopFront", "popFrontEmpty", "if[0].cond", "Bool", []Param{{"l", "Int"}}, map[string]string{"l": "l"}),
		e("Deque.PopFront", "popFrontLast", "if[1].cond", "Bool", []Param{{"l", "Int"}}, map[string]string{"l": "l"}),
		e("Deque.PopFront", "popFrontLastFront", "if[1].body/assign[d.front][0].rhs", "Int", st, nil),
		e("Deque.PopFront", "popFrontLastBack", "if[1].body/assign[d.back][0].rhs", "Int", st, nil),
		e("Deque.PopFront", "popFrontFront", "assign[d.front][1].rhs", "Int", st, nil),
		Site{Module: mod, Pkg: pkg, Func: "Deque.PopFront", Name: "popFrontClearsLast", Kind: Present, Sel: "if[1].body", Text: "d.a[d.front] = zero"},
		Site{Module: mod, Pkg: pkg, Func: "Deque.PopFront", Name: "popFrontClears", Kind: Count, Text: "d.a[d.front] = zero"},
		Site{Module: mod, Pkg: pkg, Func: "Deque.PopFront", Name: "popFrontLastBumpsGen", Kind: Present, Sel: "if[1].body", Text: "d.gen++"},
		Site{Module: mod, Pkg: pkg, Func: "Deque.PopFront", Name: "popFrontGenBumps", Kind: Count, Text: "d.gen++"},
		e("Deque.PopBack", "popBackEmpty", "if[0].cond", "Bool", []Param{{"l", "Int"}}, map[string]string{"l": "l"}),
		e("Deque.PopBack", "popBackLast", "if[1].cond", "Bool", []Param{{"l", "Int"}}, map[string]string{"l": "l"}),
		e("Deque.PopBack", "popBackLastFront", "if[1].body/assign[d.front][0].rhs", "Int", st, nil),
		e("Deque.PopBack", "popBackLastBack", "if[1].body/assign[d.back][0].rhs", "Int", st, nil),
		e("Deque.PopBack", "popBackBack", "assign[d.back][1].rhs", "Int", st, nil),
		Site{Module: mod, Pkg: pkg, Func: "Deque.PopBack", Name: "popBackClearsLast", Kind: Present, Sel: "if[1].body", Text: "d.a[d.back] = zero"},
		Site{Module: mod, Pkg: pkg, Func: "Deque.PopBack", Name: "popBackClears", Kind: Count, Text: "d.a[d.back] = zero"},
		Site{Module: mod, Pkg: pkg, Func: "Deque.PopBack", Name: "popBackLastBumpsGen", Kind: Present, Sel: "if[1].body", Text: "d.gen++"},
		Site{Module: mod, Pkg: pkg, Func: "Deque.PopBack", Name: "popBackGenBumps", Kind: Count, Text: "d.gen++"},
		// Front / Item / Set
		e("Deque.Front", "frontPanics", "if[0].cond", "Bool", st, nil),
		e("Deque.Item", "itemPanics", "if[0].cond", "Bool", append(append([]Param{}, withLen...), Param{"i", "Int"}), map[string]string{"i": "i"}),
		e("Deque.Item", "itemIdx", "assign[idx][0].rhs", "Int", append(append([]Param{}, st...), Param{"i", "Int"}), map[string]string{"i": "i"}),
		e("Deque.Set", "setPanics", "if[0].cond", "Bool", append(append([]Param{}, withLen...), Param{"i", "Int"}), map[string]string{"i": "i"}),
		e("Deque.Set", "setIdx", "assign[idx][0].rhs", "Int", append(append([]Param{}, st...), Param{"i", "Int"}), map[string]string{"i": "i"}),
		// iterator
		e("dequeIterator.Next", "iterModified", "if[0].cond", "Bool", []Param{{"iterGen", "Int"}, {"gen", "Int"}}, map[string]string{"iter.gen": "iterGen", "iter.d.gen": "gen"}),
		e("dequeIterator.Next", "iterEmpty", "if[1].cond", "Bool", []Param{{"len", "Int"}}, nil),
		e("dequeIterator.Next", "iterAtBack", "if[3].cond", "Bool", []Param{{"i", "Int"}, {"back", "Int"}}, map[string]string{"iter.i": "i"}),
		e("dequeIterator.Next", "iterAdvance", "assign[iter.i][0].rhs", "Int", []Param{{"i", "Int"}, {"cap", "Int"}}, map[string]string{"iter.i": "i"}),
	)
}
