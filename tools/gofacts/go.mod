module gofacts

go 1.18
