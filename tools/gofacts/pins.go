// pins: the coarse, generic tie. For every function that a registered site of a module looks at
// (recorded in Ctx.FindFunc), and for every type / package-level var / const declaration of the
// packages those functions live in, gofacts emits the *whole* declaration as a `List String` into
// `Juniper.Gen.Pin<Module>`. The committed expectations `Juniper.Pinned.<Module>` (written once by
// `gofacts -pin`, a deliberate act of the model's author, see notes/pins.md) are compared with them
// by one `rfl` theorem per declaration in `Juniper.Props.Pin<Module>`.
//
// A function is rendered as
//
//	line 0      its signature (receiver kind `*T` vs `T`, parameter and result types)
//	then        every simple statement, gofmt-printed on one line, in source order; compound
//	            statements as a header line ending in `{`, their body, and `}`; `case …:` /
//	            `default:` lines for switch and select clauses; labels as `L0:`; the body of every
//	            function literal that occurs in a statement or header as `func#k {` … `}` right
//	            after the line that contains it (where it is printed as `func(…) {}`).
//
// Identifiers *declared inside the function* are renamed positionally (scope-aware, through the
// object resolution of go/parser): receiver -> r, parameters -> p0.., named results -> o0.., type
// parameters -> T0.., labels -> L0.., every other local (incl. closure parameters) -> v0.. in order
// of first occurrence. Everything else stays verbatim: field and method names (selectors, keys of
// struct literals), package-qualified names, package-level functions / variables / types, builtins,
// operators, literals. A free identifier that looks like one of the positional names is an
// extraction error (never an ambiguity). Positions and comments are dropped before printing, so a
// re-wrapped call or literal prints the same.
package main

import (
	"bytes"
	"encoding/json"
	"flag"
	"fmt"
	"go/ast"
	"go/parser"
	"go/printer"
	"go/token"
	"os"
	"path/filepath"
	"reflect"
	"regexp"
	"sort"
	"strings"
)

var pinMode = flag.Bool("pin", false, "write the pinned expectations (<out>/<Module>.lean, namespace Juniper.Pinned) and the tie theorems (<out>/../Props/Pin<Module>.lean) instead of the generated facts; a deliberate act, never part of a check")

// extraPins: functions pinned for a module although no site looks at them (constructors and other
// wiring the models rely on). module -> list of {pkg, func}.
var extraPins = map[string][][2]string{
	"Group": {{"xsync", "NewGroup"}},
	"Cond":  {{"xsync", "NewContextCond"}},
	"Watch": {{"xsync", "NewFuture"}, {"xsync", "Map.Range"}},
	"XTime": {{"xtime", "NewJitterTicker"}},
	"Deque": {{"container/deque", "Deque.Iterate"}},
	"Heap": {{"container/xheap", "New"}, {"container/xheap", "NewPriorityQueue"}, {"container/xheap", "NewPriorityQueueCmp"},
		{"container/xheap", "PriorityQueue.Iterate"}, {"internal/heap", "New"}, {"internal/heap", "Heap.Iterate"}},
	"Merge": {{"stream", "Merge"}, {"chans", "Merge"}, {"chans", "Replicate"}},
	"Pipe":  {{"stream", "Pipe"}, {"stream", "Chan"}},
	"Batch": {{"stream", "Batch"}, {"stream", "BatchFunc"}},
	"Par": {{"parallel", "Do"}, {"parallel", "DoContext"}, {"parallel", "Map"}, {"parallel", "MapContext"},
		{"parallel", "MapIterator"}, {"parallel", "MapStream"}},
}

type pinRec struct{ pkg, name string }

// notePin is called by FindFunc for every successful lookup.
func (c *Ctx) notePin(pkg, name string) {
	if c.curMod == "" {
		return
	}
	if c.touched == nil {
		c.touched = map[string]map[pinRec]bool{}
	}
	if c.touched[c.curMod] == nil {
		c.touched[c.curMod] = map[pinRec]bool{}
	}
	c.touched[c.curMod][pinRec{pkg, name}] = true
}

func leanQuote(s string) string {
	var b strings.Builder
	b.WriteByte('"')
	for _, r := range s {
		switch {
		case r == '\\':
			b.WriteString(`\\`)
		case r == '"':
			b.WriteString(`\"`)
		case r == '\n':
			b.WriteString(`\n`)
		case r == '\t':
			b.WriteString(`\t`)
		case r == '\r':
			b.WriteString(`\r`)
		case r < 0x20 || r == 0x7f:
			fmt.Fprintf(&b, `\x%02x`, r)
		default:
			b.WriteRune(r)
		}
	}
	b.WriteByte('"')
	return b.String()
}

// ---------------------------------------------------------------------------------------------
// printing without positions / comments, with renaming

type pinPrinter struct {
	ren  map[*ast.Object]string
	skip map[*ast.Ident]bool
	lits []*ast.FuncLit // function literals met while cloning, outermost only, in order
}

var (
	tPos     = reflect.TypeOf(token.Pos(0))
	tObject  = reflect.TypeOf((*ast.Object)(nil))
	tScope   = reflect.TypeOf((*ast.Scope)(nil))
	tComment = reflect.TypeOf((*ast.CommentGroup)(nil))
	tIdent   = reflect.TypeOf((*ast.Ident)(nil))
	tFuncLit = reflect.TypeOf((*ast.FuncLit)(nil))
)

func (p *pinPrinter) clone(v reflect.Value) reflect.Value {
	switch v.Kind() {
	case reflect.Interface:
		out := reflect.New(v.Type()).Elem()
		if !v.IsNil() {
			out.Set(p.clone(v.Elem()))
		}
		return out
	case reflect.Ptr:
		if v.IsNil() {
			return v
		}
		switch v.Type() {
		case tObject, tScope, tComment:
			return reflect.Zero(v.Type())
		case tIdent:
			id := v.Interface().(*ast.Ident)
			n := &ast.Ident{NamePos: 1, Name: id.Name}
			if id.Obj != nil && !p.skip[id] {
				if nn, ok := p.ren[id.Obj]; ok {
					n.Name = nn
				}
			}
			return reflect.ValueOf(n)
		case tFuncLit:
			fl := v.Interface().(*ast.FuncLit)
			p.lits = append(p.lits, fl)
			ty := p.clone(reflect.ValueOf(fl.Type)).Interface().(*ast.FuncType)
			return reflect.ValueOf(&ast.FuncLit{Type: ty, Body: &ast.BlockStmt{Lbrace: 1, Rbrace: 1}})
		}
		if v.Elem().Kind() != reflect.Struct {
			return v
		}
		out := reflect.New(v.Elem().Type())
		for i := 0; i < v.Elem().NumField(); i++ {
			if out.Elem().Field(i).CanSet() {
				out.Elem().Field(i).Set(p.clone(v.Elem().Field(i)))
			}
		}
		return out
	case reflect.Slice:
		if v.IsNil() {
			return v
		}
		out := reflect.MakeSlice(v.Type(), v.Len(), v.Len())
		for i := 0; i < v.Len(); i++ {
			out.Index(i).Set(p.clone(v.Index(i)))
		}
		return out
	case reflect.Struct:
		out := reflect.New(v.Type()).Elem()
		for i := 0; i < v.NumField(); i++ {
			if out.Field(i).CanSet() {
				out.Field(i).Set(p.clone(v.Field(i)))
			}
		}
		return out
	}
	if v.Type() == tPos {
		if v.Int() != 0 {
			return reflect.ValueOf(token.Pos(1))
		}
		return v
	}
	return v
}

// pp prints a node on one line; the bodies of function literals are left out (they are in p.lits).
func (p *pinPrinter) pp(n ast.Node) string {
	if n == nil || reflect.ValueOf(n).IsNil() {
		return ""
	}
	cl := p.clone(reflect.ValueOf(n)).Interface()
	var b bytes.Buffer
	if err := printer.Fprint(&b, token.NewFileSet(), cl); err != nil {
		return "<<print error: " + err.Error() + ">>"
	}
	s := b.String()
	if strings.ContainsAny(s, "\n\t") {
		s = strings.Join(strings.Fields(s), " ")
	}
	return s
}

func objDeclPos(o *ast.Object) token.Pos {
	if n, ok := o.Decl.(ast.Node); ok && n != nil && !reflect.ValueOf(n).IsNil() {
		if p := o.Pos(); p.IsValid() {
			return p
		}
		return n.Pos()
	}
	return token.NoPos
}

var reservedName = regexp.MustCompile(`^(r[0-9]*|[pvoTL][0-9]+)$`)

// pinRename computes the positional names of everything declared inside fd.
func pinRename(fd *ast.FuncDecl) (*pinPrinter, error) {
	p := &pinPrinter{ren: map[*ast.Object]string{}, skip: map[*ast.Ident]bool{}}
	inside := func(o *ast.Object) bool {
		pos := objDeclPos(o)
		return pos.IsValid() && fd.Pos() <= pos && pos < fd.End()
	}
	// keys of struct literals are field names, whatever the resolver made of them
	var lit func(cl *ast.CompositeLit, typ ast.Expr)
	elemOf := func(t ast.Expr) ast.Expr {
		switch x := t.(type) {
		case *ast.ArrayType:
			return x.Elt
		case *ast.MapType:
			return x.Value
		}
		return nil
	}
	var scan func(n ast.Node)
	lit = func(cl *ast.CompositeLit, typ ast.Expr) {
		if cl.Type != nil {
			typ = cl.Type
			scan(cl.Type)
		}
		_, isMap := typ.(*ast.MapType)
		_, isArr := typ.(*ast.ArrayType)
		for _, e := range cl.Elts {
			val := e
			if kv, ok := e.(*ast.KeyValueExpr); ok {
				val = kv.Value
				if id, ok := kv.Key.(*ast.Ident); ok && !isMap && !isArr {
					p.skip[id] = true
				} else if kcl, ok := kv.Key.(*ast.CompositeLit); ok && isMap {
					lit(kcl, typ.(*ast.MapType).Key)
				} else {
					scan(kv.Key)
				}
			}
			if vcl, ok := val.(*ast.CompositeLit); ok {
				lit(vcl, elemOf(typ))
			} else {
				scan(val)
			}
		}
	}
	scan = func(n ast.Node) {
		if n == nil || reflect.ValueOf(n).IsNil() {
			return
		}
		ast.Inspect(n, func(x ast.Node) bool {
			if cl, ok := x.(*ast.CompositeLit); ok {
				lit(cl, nil)
				return false
			}
			return true
		})
	}
	scan(fd)

	name := func(o *ast.Object, nm string) {
		if o != nil {
			if _, ok := p.ren[o]; !ok {
				p.ren[o] = nm
			}
		}
	}
	if fd.Recv != nil {
		k := 0
		for _, f := range fd.Recv.List {
			for _, id := range f.Names {
				if id.Name == "_" {
					continue
				}
				if k == 0 {
					name(id.Obj, "r")
				} else {
					name(id.Obj, fmt.Sprintf("r%d", k))
				}
				k++
			}
		}
	}
	fieldNames := func(fl *ast.FieldList, pre string) {
		if fl == nil {
			return
		}
		k := 0
		for _, f := range fl.List {
			for _, id := range f.Names {
				if id.Name != "_" {
					name(id.Obj, fmt.Sprintf("%s%d", pre, k))
				}
				k++
			}
		}
	}
	fieldNames(fd.Type.Params, "p")
	fieldNames(fd.Type.Results, "o")
	nT, nL, nV := 0, 0, 0
	var collide []string
	sels := map[*ast.Ident]bool{}
	ast.Inspect(fd, func(x ast.Node) bool {
		switch y := x.(type) {
		case *ast.SelectorExpr:
			sels[y.Sel] = true
		case *ast.Ident:
			if y == fd.Name || sels[y] || p.skip[y] || y.Name == "_" {
				return true
			}
			if y.Obj != nil && inside(y.Obj) {
				if _, ok := p.ren[y.Obj]; !ok {
					switch y.Obj.Kind {
					case ast.Typ:
						p.ren[y.Obj] = fmt.Sprintf("T%d", nT)
						nT++
					case ast.Lbl:
						p.ren[y.Obj] = fmt.Sprintf("L%d", nL)
						nL++
					default:
						p.ren[y.Obj] = fmt.Sprintf("v%d", nV)
						nV++
					}
				}
				return true
			}
			if reservedName.MatchString(y.Name) {
				collide = append(collide, y.Name)
			}
		}
		return true
	})
	if len(collide) > 0 {
		return nil, fmt.Errorf("free identifier(s) %v look like positional names", collide)
	}
	return p, nil
}

// withLits appends the bodies of the function literals collected since mark.
func (p *pinPrinter) flushLits(out *[]string, mark int) {
	lits := append([]*ast.FuncLit{}, p.lits[mark:]...)
	p.lits = p.lits[:mark]
	for k, fl := range lits {
		*out = append(*out, fmt.Sprintf("func#%d {", k))
		p.block(out, fl.Body.List)
		*out = append(*out, "}")
	}
}

// line prints pieces (strings verbatim, nodes through pp) as one line, then the closure bodies.
func (p *pinPrinter) line(out *[]string, parts ...interface{}) {
	mark := len(p.lits)
	var b strings.Builder
	for _, x := range parts {
		switch y := x.(type) {
		case string:
			b.WriteString(y)
		case ast.Node:
			b.WriteString(p.pp(y))
		}
	}
	*out = append(*out, b.String())
	p.flushLits(out, mark)
}

func (p *pinPrinter) block(out *[]string, list []ast.Stmt) {
	for _, st := range list {
		p.stmt(out, st)
	}
}

func (p *pinPrinter) exprs(xs []ast.Expr) []interface{} {
	var parts []interface{}
	for i, e := range xs {
		if i > 0 {
			parts = append(parts, ", ")
		}
		parts = append(parts, ast.Node(e))
	}
	return parts
}

func (p *pinPrinter) stmt(out *[]string, st ast.Stmt) {
	switch x := st.(type) {
	case nil:
	case *ast.BlockStmt:
		*out = append(*out, "{")
		p.block(out, x.List)
		*out = append(*out, "}")
	case *ast.IfStmt:
		parts := []interface{}{"if "}
		if x.Init != nil {
			parts = append(parts, ast.Node(x.Init), "; ")
		}
		parts = append(parts, ast.Node(x.Cond), " {")
		p.line(out, parts...)
		p.block(out, x.Body.List)
		switch e := x.Else.(type) {
		case nil:
		case *ast.BlockStmt:
			*out = append(*out, "} else {")
			p.block(out, e.List)
		default:
			*out = append(*out, "} else {")
			p.stmt(out, e)
		}
		*out = append(*out, "}")
	case *ast.ForStmt:
		parts := []interface{}{"for"}
		if x.Init != nil || x.Post != nil {
			parts = append(parts, " ")
			if x.Init != nil {
				parts = append(parts, ast.Node(x.Init))
			}
			parts = append(parts, "; ")
			if x.Cond != nil {
				parts = append(parts, ast.Node(x.Cond))
			}
			parts = append(parts, "; ")
			if x.Post != nil {
				parts = append(parts, ast.Node(x.Post))
			}
		} else if x.Cond != nil {
			parts = append(parts, " ", ast.Node(x.Cond))
		}
		parts = append(parts, " {")
		p.line(out, parts...)
		p.block(out, x.Body.List)
		*out = append(*out, "}")
	case *ast.RangeStmt:
		parts := []interface{}{"for "}
		if x.Key != nil {
			parts = append(parts, ast.Node(x.Key))
			if x.Value != nil {
				parts = append(parts, ", ", ast.Node(x.Value))
			}
			parts = append(parts, " "+x.Tok.String()+" ")
		}
		parts = append(parts, "range ", ast.Node(x.X), " {")
		p.line(out, parts...)
		p.block(out, x.Body.List)
		*out = append(*out, "}")
	case *ast.SwitchStmt:
		parts := []interface{}{"switch"}
		if x.Init != nil {
			parts = append(parts, " ", ast.Node(x.Init), ";")
		}
		if x.Tag != nil {
			parts = append(parts, " ", ast.Node(x.Tag))
		}
		parts = append(parts, " {")
		p.line(out, parts...)
		p.block(out, x.Body.List)
		*out = append(*out, "}")
	case *ast.TypeSwitchStmt:
		parts := []interface{}{"switch"}
		if x.Init != nil {
			parts = append(parts, " ", ast.Node(x.Init), ";")
		}
		parts = append(parts, " ", ast.Node(x.Assign), " {")
		p.line(out, parts...)
		p.block(out, x.Body.List)
		*out = append(*out, "}")
	case *ast.CaseClause:
		if x.List == nil {
			*out = append(*out, "default:")
		} else {
			parts := append([]interface{}{"case "}, p.exprs(x.List)...)
			p.line(out, append(parts, ":")...)
		}
		p.block(out, x.Body)
	case *ast.SelectStmt:
		*out = append(*out, "select {")
		p.block(out, x.Body.List)
		*out = append(*out, "}")
	case *ast.CommClause:
		if x.Comm == nil {
			*out = append(*out, "default:")
		} else {
			p.line(out, "case ", ast.Node(x.Comm), ":")
		}
		p.block(out, x.Body)
	case *ast.LabeledStmt:
		p.line(out, ast.Node(x.Label), ":")
		p.stmt(out, x.Stmt)
	case *ast.EmptyStmt:
	default:
		p.line(out, ast.Node(st))
	}
}

// pinFunc renders a whole function declaration.
func (c *Ctx) pinFunc(fd *ast.FuncDecl) ([]string, error) {
	p, err := pinRename(fd)
	if err != nil {
		return nil, err
	}
	var out []string
	sig := &ast.FuncDecl{Recv: fd.Recv, Name: fd.Name, Type: fd.Type}
	p.line(&out, ast.Node(sig))
	p.block(&out, fd.Body.List)
	return out, nil
}

// pinDecls renders the type declarations and the package-level var/const declarations of a package.
func (c *Ctx) pinDecls(pkg string) (types map[string][]string, vars []string, err error) {
	files, err := c.files(pkg)
	if err != nil {
		return nil, nil, err
	}
	types = map[string][]string{}
	p := &pinPrinter{ren: map[*ast.Object]string{}, skip: map[*ast.Ident]bool{}}
	fields := func(out *[]string, fl *ast.FieldList) {
		if fl == nil {
			return
		}
		for _, f := range fl.List {
			tag := ""
			if f.Tag != nil {
				tag = " " + f.Tag.Value
			}
			if len(f.Names) == 0 {
				p.line(out, ast.Node(f.Type), tag)
			}
			for _, n := range f.Names {
				if _, isFunc := f.Type.(*ast.FuncType); isFunc && tag == "" {
					// interface method / func-typed field: name + signature
					p.line(out, n.Name, " ", ast.Node(f.Type))
				} else {
					p.line(out, n.Name, " ", ast.Node(f.Type), tag)
				}
			}
		}
	}
	for _, f := range files {
		for _, d := range f.Decls {
			gd, ok := d.(*ast.GenDecl)
			if !ok {
				continue
			}
			switch gd.Tok {
			case token.TYPE:
				for _, sp := range gd.Specs {
					ts := sp.(*ast.TypeSpec)
					var out []string
					head := "type " + ts.Name.Name
					if ts.TypeParams != nil {
						var tp []string
						for _, f := range ts.TypeParams.List {
							var ns []string
							for _, n := range f.Names {
								ns = append(ns, n.Name)
							}
							tp = append(tp, strings.Join(ns, ", ")+" "+p.pp(f.Type))
						}
						head += "[" + strings.Join(tp, ", ") + "]"
					}
					if ts.Assign.IsValid() {
						head += " ="
					}
					switch t := ts.Type.(type) {
					case *ast.StructType:
						out = append(out, head+" struct")
						fields(&out, t.Fields)
					case *ast.InterfaceType:
						out = append(out, head+" interface")
						fields(&out, t.Methods)
					default:
						p.line(&out, head+" ", ast.Node(ts.Type))
					}
					if _, dup := types[ts.Name.Name]; dup {
						return nil, nil, fmt.Errorf("type %s declared twice in %s", ts.Name.Name, pkg)
					}
					types[ts.Name.Name] = out
				}
			case token.VAR, token.CONST:
				for _, sp := range gd.Specs {
					vs := sp.(*ast.ValueSpec)
					var ns []string
					for _, n := range vs.Names {
						ns = append(ns, n.Name)
					}
					parts := []interface{}{gd.Tok.String() + " " + strings.Join(ns, ", ")}
					if vs.Type != nil {
						parts = append(parts, " ", ast.Node(vs.Type))
					}
					if len(vs.Values) > 0 {
						parts = append(parts, " = ")
						parts = append(parts, p.exprs(vs.Values)...)
					}
					p.line(&vars, parts...)
				}
			}
		}
	}
	return types, vars, nil
}

func pinIdent(s string) string {
	return strings.Map(func(r rune) rune {
		if r == '/' || r == '.' || r == '-' {
			return '_'
		}
		return r
	}, s)
}

type pinDef struct {
	name  string
	doc   string
	lines []string
}

// pinModule computes the pins of one generated module (after its sites have run).
func (c *Ctx) pinModule(m string, sitePkgs []string) ([]pinDef, []string) {
	var errs []string
	recs := map[pinRec]bool{}
	for r := range c.touched[m] {
		recs[r] = true
	}
	saved := c.curMod
	c.curMod = ""
	defer func() { c.curMod = saved }()
	for _, e := range extraPins[m] {
		if _, err := c.FindFunc(e[0], e[1]); err != nil {
			errs = append(errs, fmt.Sprintf("pin %s %s: %v", e[0], e[1], err))
			continue
		}
		recs[pinRec{e[0], e[1]}] = true
	}
	// close under the same-package callees that resolve without type information: `f(…)` / `f[T](…)`
	// with f a package-level function of the package, and `r.m(…)` with r the receiver
	var work []pinRec
	for r := range recs {
		work = append(work, r)
	}
	for len(work) > 0 {
		r := work[len(work)-1]
		work = work[:len(work)-1]
		fd, err := c.FindFunc(r.pkg, r.name)
		if err != nil {
			continue
		}
		var recvObj *ast.Object
		if fd.Recv != nil && len(fd.Recv.List) > 0 && len(fd.Recv.List[0].Names) > 0 {
			recvObj = fd.Recv.List[0].Names[0].Obj
		}
		ast.Inspect(fd.Body, func(n ast.Node) bool {
			call, ok := n.(*ast.CallExpr)
			if !ok {
				return true
			}
			fun := call.Fun
			switch x := fun.(type) {
			case *ast.IndexExpr:
				fun = x.X
			case *ast.IndexListExpr:
				fun = x.X
			}
			cand := ""
			switch f := fun.(type) {
			case *ast.Ident:
				if f.Obj == nil || f.Obj.Kind == ast.Fun {
					cand = f.Name
				}
			case *ast.SelectorExpr:
				if id, ok := f.X.(*ast.Ident); ok && recvObj != nil && id.Obj == recvObj {
					cand = recvName(fd) + "." + f.Sel.Name
				}
			}
			if cand != "" && !recs[pinRec{r.pkg, cand}] {
				if _, err := c.FindFunc(r.pkg, cand); err == nil {
					recs[pinRec{r.pkg, cand}] = true
					work = append(work, pinRec{r.pkg, cand})
				}
			}
			return true
		})
	}
	var list []pinRec
	pkgs := map[string]bool{}
	for r := range recs {
		list = append(list, r)
		pkgs[r.pkg] = true
	}
	for _, p := range sitePkgs {
		if p != "" {
			pkgs[p] = true
		}
	}
	sort.Slice(list, func(i, j int) bool {
		if list[i].pkg != list[j].pkg {
			return list[i].pkg < list[j].pkg
		}
		return list[i].name < list[j].name
	})
	var defs []pinDef
	seen := map[string]bool{}
	add := func(d pinDef) {
		if seen[d.name] {
			errs = append(errs, d.name+": duplicate pin name")
			return
		}
		seen[d.name] = true
		defs = append(defs, d)
	}
	for _, r := range list {
		name := "pin_" + pinIdent(r.pkg) + "_" + pinIdent(r.name)
		fd, err := c.FindFunc(r.pkg, r.name)
		if err == nil {
			var lines []string
			lines, err = c.pinFunc(fd)
			if err == nil {
				add(pinDef{name, fmt.Sprintf("`%s` in `%s`: signature and full statement list, locals renamed positionally", r.name, r.pkg), lines})
				continue
			}
		}
		errs = append(errs, fmt.Sprintf("%s (%s %s): %v", name, r.pkg, r.name, err))
	}
	var pl []string
	for p := range pkgs {
		pl = append(pl, p)
	}
	sort.Strings(pl)
	for _, pkg := range pl {
		types, vars, err := c.pinDecls(pkg)
		if err != nil {
			errs = append(errs, fmt.Sprintf("pin declarations of %s: %v", pkg, err))
			continue
		}
		var tn []string
		for t := range types {
			tn = append(tn, t)
		}
		sort.Strings(tn)
		for _, t := range tn {
			add(pinDef{"pin_" + pinIdent(pkg) + "_type_" + t, fmt.Sprintf("type `%s` of `%s`: one line per field / method", t, pkg), types[t]})
		}
		add(pinDef{"pin_" + pinIdent(pkg) + "_vars", fmt.Sprintf("package-level var / const declarations of `%s`, in source order", pkg), vars})
	}
	return defs, errs
}

func pinText(ns string, header string, defs []pinDef) string {
	var b strings.Builder
	b.WriteString(header)
	b.WriteString("\nnamespace " + ns + "\n\n")
	for _, d := range defs {
		q := make([]string, len(d.lines))
		for i, l := range d.lines {
			q[i] = leanQuote(l)
		}
		fmt.Fprintf(&b, "/-- %s -/\ndef %s : List String := [%s]\n\n", d.doc, d.name, strings.Join(q, ",\n  "))
	}
	b.WriteString("end " + ns + "\n")
	return b.String()
}

func writeIfChanged(path, text string) (bool, error) {
	old, _ := os.ReadFile(path)
	if string(old) == text {
		return false, nil
	}
	return true, os.WriteFile(path, []byte(text), 0o644)
}

// emitPins writes Generated/Pin<m>.lean (normal mode) or Pinned/<m>.lean + Props/Pin<m>.lean (-pin).
func (c *Ctx) emitPins(m string, sitePkgs []string, outDir string, rep map[string]*modReport) error {
	defs, errs := c.pinModule(m, sitePkgs)
	r := &modReport{Fingerprints: map[string]string{}, Sites: len(defs), Errors: errs}
	rep["Pin"+m] = r
	if !*pinMode {
		txt := pinText("Juniper.Gen.Pin"+m, "-- GENERATED by tools/gofacts (pins.go) from the Go source on every run. Do not edit.\n", defs)
		for _, e := range errs {
			txt += "-- MISSING " + strings.ReplaceAll(e, "\n", " ") + "\n"
		}
		ch, err := writeIfChanged(filepath.Join(outDir, "Pin"+m+".lean"), txt)
		r.Changed = ch
		return err
	}
	if len(errs) > 0 {
		return fmt.Errorf("module %s: not pinned, extraction errors: %v", m, errs)
	}
	txt := pinText("Juniper.Pinned."+m,
		"-- PINNED expectations, written by `gofacts -pin` (see notes/pins.md). Committed. Re-pinning is a deliberate act of\n"+
			"-- whoever changed the Go code or a model, after reviewing that the model still mirrors the code: never part of a check.\n", defs)
	if err := os.MkdirAll(outDir, 0o755); err != nil {
		return err
	}
	ch, err := writeIfChanged(filepath.Join(outDir, m+".lean"), txt)
	if err != nil {
		return err
	}
	r.Changed = ch
	var b strings.Builder
	b.WriteString("-- Tie theorems of the pins (written by `gofacts -pin` together with Juniper/Pinned/" + m + ".lean; see notes/pins.md).\n")
	b.WriteString("-- Each says: the declaration gofacts reads from the tree under check today is, up to the names of its locals,\n")
	b.WriteString("-- the one the author of the model saw. `rfl` on two literals: kernel-checked, no axioms.\n")
	b.WriteString("import Juniper.Generated.Pin" + m + "\nimport Juniper.Pinned." + m + "\n\nnamespace Juniper.Props.Pin" + m + "\n\n")
	for _, d := range defs {
		fmt.Fprintf(&b, "theorem %s_ok : Juniper.Gen.Pin%s.%s = Juniper.Pinned.%s.%s := by rfl\n", d.name, m, d.name, m, d.name)
	}
	b.WriteString("\nend Juniper.Props.Pin" + m + "\n")
	propsDir := filepath.Join(filepath.Dir(filepath.Clean(outDir)), "Props")
	_, err = writeIfChanged(filepath.Join(propsDir, "Pin"+m+".lean"), b.String())
	return err
}

// ---------------------------------------------------------------------------------------------
// -apifuncs: the exported functions / methods of some files with their line ranges (bin/api-coverage)

var apiFuncs = flag.String("apifuncs", "", "comma-separated .go files relative to -repo: print their exported functions and methods (JSON: file, name, start and end line) and exit")

func listAPIFuncs(repo, files string) {
	type rec struct {
		File  string `json:"file"`
		Name  string `json:"name"`
		Start int    `json:"start"`
		End   int    `json:"end"`
		Skip  string `json:"skipped,omitempty"`
	}
	out := []rec{}
	fset := token.NewFileSet()
	for _, rel := range strings.Split(files, ",") {
		rel = strings.TrimSpace(rel)
		if rel == "" {
			continue
		}
		src, err := os.ReadFile(filepath.Join(repo, rel))
		if err != nil {
			out = append(out, rec{File: rel, Skip: err.Error()})
			continue
		}
		if skipByBuildTag(string(src)) {
			out = append(out, rec{File: rel, Skip: "not built by this toolchain (build constraint)"})
			continue
		}
		f, err := parser.ParseFile(fset, rel, src, parser.SkipObjectResolution)
		if err != nil {
			out = append(out, rec{File: rel, Skip: err.Error()})
			continue
		}
		for _, d := range f.Decls {
			fd, ok := d.(*ast.FuncDecl)
			if !ok || fd.Body == nil || !fd.Name.IsExported() {
				continue
			}
			name := fd.Name.Name
			if r := recvName(fd); r != "" {
				name = r + "." + name
			}
			out = append(out, rec{File: rel, Name: name, Start: fset.Position(fd.Pos()).Line, End: fset.Position(fd.End()).Line})
		}
	}
	b, _ := json.MarshalIndent(out, "", " ")
	os.Stdout.Write(append(b, '\n'))
	os.Exit(0)
}
