package main

// chans.Merge / chans.Replicate / stream.Merge -> Juniper.Gen.Merge.
// Consumed by Model/Merge.lean and Model/StreamMerge.lean (C12, and the stream.Merge clauses of
// C08 / C09).

import (
	"fmt"
	"go/ast"
	"go/token"
	"strings"
)

// textSite emits `def name : String := "<source text of the selected node, spaces removed>"`.
func textSite(mod, pkg, fn, name, sel string) Site {
	return Site{Module: mod, Pkg: pkg, Func: fn, Name: name, Kind: Custom, Sel: sel,
		Custom: func(c *Ctx, s *Site) (string, error) {
			fd, err := c.FindFunc(s.Pkg, s.Func)
			if err != nil {
				return "", err
			}
			n, err := c.SelectPath(fd, s.Sel)
			if err != nil {
				return "", err
			}
			return fmt.Sprintf("/-- source text of `%s` in `%s` -/\ndef %s : String := %s\n", s.Sel, s.Func, s.Name, leanString(c.Text(n))), nil
		}}
}

// isNilAssign: `<ch> = nil`
func isNilAssign(c *Ctx, st ast.Stmt, ch string) bool {
	a, ok := st.(*ast.AssignStmt)
	if !ok || a.Tok != token.ASSIGN || len(a.Lhs) != 1 || len(a.Rhs) != 1 {
		return false
	}
	return c.Text(a.Lhs[0]) == ch && c.Text(a.Rhs[0]) == "nil"
}

// mergeClauses describes every arm of the select of merge2/merge3:
// (channel, `out <- item` in the ok branch, `<channel> = nil` in the closed branch, `nDone++` in the
// closed branch, k of `if nDone == k { return }` in the closed branch or -1).
func mergeClauses(mod, pkg, fn, name string) Site {
	return Site{Module: mod, Pkg: pkg, Func: fn, Name: name, Kind: Custom,
		Custom: func(c *Ctx, s *Site) (string, error) {
			fd, err := c.FindFunc(s.Pkg, s.Func)
			if err != nil {
				return "", err
			}
			n, err := c.SelectPath(fd, "select[0]")
			if err != nil {
				return "", err
			}
			sel := n.(*ast.SelectStmt)
			var rows []string
			for _, cl := range sel.Body.List {
				cc := cl.(*ast.CommClause)
				as, ok := cc.Comm.(*ast.AssignStmt)
				if !ok || len(as.Lhs) != 2 || len(as.Rhs) != 1 {
					return "", fmt.Errorf("arm is not `item, ok := <-ch`: %s", c.Pretty(cc))
				}
				u, ok := as.Rhs[0].(*ast.UnaryExpr)
				if !ok || u.Op != token.ARROW {
					return "", fmt.Errorf("arm is not a receive")
				}
				ch := c.Text(u.X)
				item, okv := c.Text(as.Lhs[0]), c.Text(as.Lhs[1])
				if len(cc.Body) != 1 {
					return "", fmt.Errorf("arm body of %s is not a single if/else", ch)
				}
				ifs, ok := cc.Body[0].(*ast.IfStmt)
				if !ok || c.Text(ifs.Cond) != okv || ifs.Else == nil {
					return "", fmt.Errorf("arm body of %s is not `if ok {..} else {..}`", ch)
				}
				els, ok := ifs.Else.(*ast.BlockStmt)
				if !ok {
					return "", fmt.Errorf("else of %s is not a block", ch)
				}
				fwd := false
				for _, st := range ifs.Body.List {
					if ss, ok := st.(*ast.SendStmt); ok && c.Text(ss.Chan) == "out" && c.Text(ss.Value) == item {
						fwd = true
					}
				}
				nils, incs, ret := false, false, "-1"
				for _, st := range els.List {
					if isNilAssign(c, st, ch) {
						nils = true
					}
					if id, ok := st.(*ast.IncDecStmt); ok && id.Tok == token.INC && c.Text(id.X) == "nDone" {
						incs = true
					}
					if i2, ok := st.(*ast.IfStmt); ok && i2.Else == nil {
						if be, ok := i2.Cond.(*ast.BinaryExpr); ok && be.Op == token.EQL && c.Text(be.X) == "nDone" {
							if lit, ok := be.Y.(*ast.BasicLit); ok && lit.Kind == token.INT {
								if len(i2.Body.List) == 1 {
									if _, ok := i2.Body.List[0].(*ast.ReturnStmt); ok {
										ret = lit.Value
									}
								}
							}
						}
					}
				}
				rows = append(rows, fmt.Sprintf("(%s, %v, %v, %v, (%s : Int))", leanString(ch), fwd, nils, incs, ret))
			}
			return fmt.Sprintf("/-- arms of the select of `%s`: (channel, forwards `out <- item`, `ch = nil` on close, `nDone++` on close, k of `if nDone == k { return }`) -/\ndef %s : List (String × Bool × Bool × Bool × Int) := [%s]\n",
				s.Func, s.Name, strings.Join(rows, ", ")), nil
		}}
}

// paramNames emits the names of the parameters of a function, in order.
func paramNames(mod, pkg, fn, name string) Site {
	return Site{Module: mod, Pkg: pkg, Func: fn, Name: name, Kind: Custom,
		Custom: func(c *Ctx, s *Site) (string, error) {
			fd, err := c.FindFunc(s.Pkg, s.Func)
			if err != nil {
				return "", err
			}
			var ns []string
			for _, f := range fd.Type.Params.List {
				for _, id := range f.Names {
					ns = append(ns, leanString(id.Name))
				}
			}
			return fmt.Sprintf("/-- parameter names of `%s` -/\ndef %s : List String := [%s]\n", s.Func, s.Name, strings.Join(ns, ", ")), nil
		}}
}

// deferList emits the deferred calls of a block in source order (a deferred function literal is
// rendered as "func").
func deferList(mod, pkg, fn, name, sel string) Site {
	return Site{Module: mod, Pkg: pkg, Func: fn, Name: name, Kind: Custom, Sel: sel,
		Custom: func(c *Ctx, s *Site) (string, error) {
			fd, err := c.FindFunc(s.Pkg, s.Func)
			if err != nil {
				return "", err
			}
			n, err := c.SelectPath(fd, s.Sel)
			if err != nil {
				return "", err
			}
			b, ok := n.(*ast.BlockStmt)
			if !ok {
				return "", fmt.Errorf("selector %q is not a block", s.Sel)
			}
			var ds []string
			for _, st := range b.List {
				d, ok := st.(*ast.DeferStmt)
				if !ok {
					continue
				}
				if _, isLit := d.Call.Fun.(*ast.FuncLit); isLit {
					ds = append(ds, leanString("func"))
				} else {
					ds = append(ds, leanString(c.Text(d.Call)))
				}
			}
			return fmt.Sprintf("/-- deferred calls of `%s` %s in source order (they run in reverse) -/\ndef %s : List String := [%s]\n", s.Func, s.Sel, s.Name, strings.Join(ds, ", ")), nil
		}}
}

// reflectForward describes how the reflect path of chans.Merge forwards a received value:
// (a send on `out` exists in the scope, form of the type assertion: "commaok" | "plain" | "none").
func reflectForward(mod, pkg, fn, nameSends, nameAssert, sel string) []Site {
	scan := func(c *Ctx, s *Site) (bool, string, error) {
		fd, err := c.FindFunc(s.Pkg, s.Func)
		if err != nil {
			return false, "", err
		}
		n, err := c.SelectPath(fd, s.Sel)
		if err != nil {
			return false, "", err
		}
		sends := false
		assert := "none"
		ast.Inspect(n, func(x ast.Node) bool {
			switch y := x.(type) {
			case *ast.SendStmt:
				if c.Text(y.Chan) == "out" {
					sends = true
				}
				if _, ok := y.Value.(*ast.TypeAssertExpr); ok {
					assert = "plain"
				}
			case *ast.AssignStmt:
				if len(y.Rhs) == 1 {
					if _, ok := y.Rhs[0].(*ast.TypeAssertExpr); ok {
						if len(y.Lhs) == 2 {
							assert = "commaok"
						} else {
							assert = "plain"
						}
					}
				}
			}
			return true
		})
		return sends, assert, nil
	}
	return []Site{
		{Module: mod, Pkg: pkg, Func: fn, Name: nameSends, Kind: Custom, Sel: sel,
			Custom: func(c *Ctx, s *Site) (string, error) {
				sends, _, err := scan(c, s)
				if err != nil {
					return "", err
				}
				return fmt.Sprintf("/-- a send on `out` occurs in `%s` %s -/\ndef %s : Bool := %v\n", s.Func, s.Sel, s.Name, sends), nil
			}},
		{Module: mod, Pkg: pkg, Func: fn, Name: nameAssert, Kind: Custom, Sel: sel,
			Custom: func(c *Ctx, s *Site) (string, error) {
				_, as, err := scan(c, s)
				if err != nil {
					return "", err
				}
				return fmt.Sprintf("/-- form of the type assertion `item.Interface().(T)` in `%s` %s -/\ndef %s : String := %s\n", s.Func, s.Sel, s.Name, leanString(as)), nil
			}},
	}
}

// ---- origin and uses of a context created inside a function (stream.Merge: `ctx, cancel := …`) ----
//
// ctxOriginSites emits, for the statement `<ctxName>, <cancelName> := <rhs>` at the top level of `fn`:
//   <prefix>Rhs    : String       text of <rhs>                       ("context.WithCancel(context.Background())")
//   <prefix>Ctor   : String       callee of <rhs> if it is a call     ("context.WithCancel"), else ""
//   <prefix>Parent : String       first argument of that call         ("context.Background()"), else ""
//   <prefix>CancelUses : List String   every other occurrence of the identifier <cancelName> in `fn`
//   <prefix>CtxUses    : List String   every other occurrence of the identifier <ctxName> in `fn`
// An occurrence is rendered as the innermost call it is the callee or a direct argument of (prefixed by
// `defer ` / `go ` when that call is deferred / spawned), otherwise as the innermost enclosing simple
// statement; function literals nested in `fn` are searched too (closures capture the variable). Field
// names (`x.cancel`, `T{cancel: …}`) are not occurrences of the variable. A second statement defining or
// assigning the name is an occurrence (its whole text), so a re-binding shows up in the list.
func ctxOriginFind(c *Ctx, s *Site, ctxName, cancelName string) (*ast.FuncDecl, *ast.AssignStmt, error) {
	fd, err := c.FindFunc(s.Pkg, s.Func)
	if err != nil {
		return nil, nil, err
	}
	var def *ast.AssignStmt
	for _, st := range fd.Body.List {
		a, ok := st.(*ast.AssignStmt)
		if !ok || a.Tok != token.DEFINE || len(a.Lhs) != 2 || len(a.Rhs) != 1 {
			continue
		}
		if c.Text(a.Lhs[0]) == ctxName && c.Text(a.Lhs[1]) == cancelName {
			if def != nil {
				return nil, nil, fmt.Errorf("%s: `%s, %s :=` occurs twice", s.Func, ctxName, cancelName)
			}
			def = a
		}
	}
	if def == nil {
		return nil, nil, fmt.Errorf("%s: no top-level statement `%s, %s := …`", s.Func, ctxName, cancelName)
	}
	return fd, def, nil
}

// identUses lists the occurrences of the variable `name` in fd other than the left-hand side of `def`.
func identUses(c *Ctx, fd *ast.FuncDecl, def *ast.AssignStmt, name string) []string {
	var uses []string
	var stack []ast.Node
	ast.Inspect(fd.Body, func(n ast.Node) bool {
		if n == nil {
			stack = stack[:len(stack)-1]
			return true
		}
		stack = append(stack, n)
		id, ok := n.(*ast.Ident)
		if !ok || id.Name != name {
			return true
		}
		parent := stack[len(stack)-2]
		switch p := parent.(type) {
		case *ast.SelectorExpr:
			if p.Sel == id {
				return true // field or method name
			}
		case *ast.KeyValueExpr:
			if p.Key == id && len(stack) >= 3 {
				if cl, ok := stack[len(stack)-3].(*ast.CompositeLit); ok {
					if _, isMap := cl.Type.(*ast.MapType); !isMap {
						return true // struct field key
					}
				}
			}
		case *ast.AssignStmt:
			if p == def {
				for _, l := range p.Lhs {
					if l == id {
						return true // the definition itself
					}
				}
			}
		case *ast.Field:
			// a parameter or result of a nested function literal that shadows the name: report it
		}
		// innermost call of which the identifier is the callee or a direct argument
		if call, ok := parent.(*ast.CallExpr); ok {
			pre := ""
			if len(stack) >= 3 {
				switch gp := stack[len(stack)-3].(type) {
				case *ast.DeferStmt:
					if gp.Call == call {
						pre = "defer "
					}
				case *ast.GoStmt:
					if gp.Call == call {
						pre = "go "
					}
				}
			}
			uses = append(uses, pre+c.Text(call))
			return true
		}
		// otherwise the innermost enclosing simple statement
		for i := len(stack) - 2; i >= 0; i-- {
			if st, ok := stack[i].(ast.Stmt); ok {
				if _, isBlock := st.(*ast.BlockStmt); isBlock {
					continue
				}
				uses = append(uses, c.Pretty(st))
				return true
			}
		}
		uses = append(uses, c.Text(parent))
		return true
	})
	return uses
}

func ctxOriginSites(mod, pkg, fn, prefix, ctxName, cancelName string) []Site {
	str := func(name, doc string, f func(c *Ctx, def *ast.AssignStmt) string) Site {
		return Site{Module: mod, Pkg: pkg, Func: fn, Name: prefix + name, Kind: Custom,
			Custom: func(c *Ctx, s *Site) (string, error) {
				_, def, err := ctxOriginFind(c, s, ctxName, cancelName)
				if err != nil {
					return "", err
				}
				return fmt.Sprintf("/-- `%s, %s := <rhs>` in `%s`: %s -/\ndef %s : String := %s\n",
					ctxName, cancelName, s.Func, doc, s.Name, leanString(f(c, def))), nil
			}}
	}
	uses := func(name, ident string) Site {
		return Site{Module: mod, Pkg: pkg, Func: fn, Name: prefix + name, Kind: Custom,
			Custom: func(c *Ctx, s *Site) (string, error) {
				fd, def, err := ctxOriginFind(c, s, ctxName, cancelName)
				if err != nil {
					return "", err
				}
				var us []string
				for _, u := range identUses(c, fd, def, ident) {
					us = append(us, leanString(u))
				}
				return fmt.Sprintf("/-- every occurrence of the variable `%s` in `%s` (closures included) other than its definition `%s, %s := …`, each as the innermost call it is callee / argument of, or its enclosing statement -/\ndef %s : List String := [%s]\n",
					ident, s.Func, ctxName, cancelName, s.Name, strings.Join(us, ", ")), nil
			}}
	}
	return []Site{
		str("Rhs", "text of <rhs>", func(c *Ctx, def *ast.AssignStmt) string { return c.Text(def.Rhs[0]) }),
		str("Ctor", "callee of <rhs> (\"\" if <rhs> is not a call)", func(c *Ctx, def *ast.AssignStmt) string {
			if call, ok := def.Rhs[0].(*ast.CallExpr); ok {
				return c.Text(call.Fun)
			}
			return ""
		}),
		str("Parent", "first argument of <rhs> (\"\" if none)", func(c *Ctx, def *ast.AssignStmt) string {
			if call, ok := def.Rhs[0].(*ast.CallExpr); ok && len(call.Args) > 0 {
				return c.Text(call.Args[0])
			}
			return ""
		}),
		uses("CancelUses", cancelName),
		uses("CtxUses", ctxName),
	}
}

func init() {
	const mod = "Merge"
	const ch = "chans"
	nVar := map[string]string{"len(in)": "n"}
	nPar := []Param{{"n", "Int"}}
	register(
		// ---- chans.Merge: arity dispatch
		Site{Module: mod, Pkg: ch, Func: "Merge", Name: "dispatch1", Kind: Expr, Sel: "if[0].cond", Type: "Bool", Params: nPar, Vars: nVar},
		Site{Module: mod, Pkg: ch, Func: "Merge", Name: "dispatch2", Kind: Expr, Sel: "if[1].cond", Type: "Bool", Params: nPar, Vars: nVar},
		Site{Module: mod, Pkg: ch, Func: "Merge", Name: "dispatch3", Kind: Expr, Sel: "if[2].cond", Type: "Bool", Params: nPar, Vars: nVar},
		textSite(mod, ch, "Merge", "rangeChan", "if[0].body/range[0].x"),
		Site{Module: mod, Pkg: ch, Func: "Merge", Name: "rangeForwards", Kind: Present, Sel: "if[0].body/range[0].body", Text: "out <- item"},
		Site{Module: mod, Pkg: ch, Func: "Merge", Name: "rangeReturns", Kind: Present, Sel: "if[0].body", Text: "return"},
		Site{Module: mod, Pkg: ch, Func: "Merge", Name: "dispatch2Body", Kind: StmtList, Sel: "if[1].body"},
		Site{Module: mod, Pkg: ch, Func: "Merge", Name: "dispatch3Body", Kind: StmtList, Sel: "if[2].body"},
		// ---- merge2 / merge3
		Site{Module: mod, Pkg: ch, Func: "merge2", Name: "merge2Arms", Kind: Select, Sel: "select[0]"},
		mergeClauses(mod, ch, "merge2", "merge2Clauses"),
		paramNames(mod, ch, "merge2", "merge2Params"),
		Site{Module: mod, Pkg: ch, Func: "merge3", Name: "merge3Arms", Kind: Select, Sel: "select[0]"},
		mergeClauses(mod, ch, "merge3", "merge3Clauses"),
		paramNames(mod, ch, "merge3", "merge3Params"),
		// ---- reflect path
		textSite(mod, ch, "Merge", "reflectCasesOver", "call[xslices.Map][0].arg[0]"),
		Site{Module: mod, Pkg: ch, Func: "Merge", Name: "reflectRet", Kind: Expr, Sel: "if[3].cond", Type: "Bool",
			Params: []Param{{"live", "Int"}}, Vars: map[string]string{"len(selectCases)": "live"}},
		Site{Module: mod, Pkg: ch, Func: "Merge", Name: "reflectRetReturns", Kind: Present, Sel: "if[3].body", Text: "return"},
		textSite(mod, ch, "Merge", "reflectOkCond", "if[4].cond"),
		Site{Module: mod, Pkg: ch, Func: "Merge", Name: "reflectRemoves", Kind: Present, Sel: "if[4].else",
			Text: "selectCases = xslices.RemoveUnordered(selectCases, chosen, 1)"},
		Site{Module: mod, Pkg: ch, Func: "Merge", Name: "reflectSelects", Kind: Present, Sel: "for[0].body",
			Text: "chosen, item, ok := reflect.Select(selectCases)"},
	)
	register(reflectForward(mod, ch, "Merge", "reflectSendsOut", "reflectAssert", "if[4].body")...)
	register(
		// ---- Replicate
		textSite(mod, ch, "Replicate", "replSrc", "range[0].x"),
		textSite(mod, ch, "Replicate", "replDsts", "range[0].body/range[0].x"),
		Site{Module: mod, Pkg: ch, Func: "Replicate", Name: "replSends", Kind: Present, Sel: "range[0].body/range[0].body", Text: "dst <- item"},
	)

	// ---- stream.Merge
	const st = "stream"
	const gbody = "go[0].call/funclit[0].body"
	const loop = gbody + "/for[0].body"
	register(
		Site{Module: mod, Pkg: st, Func: "Merge", Name: "smPipeBuf", Kind: Expr, Sel: "call[Pipe[T]][0].arg[0]", Type: "Int"},
		Site{Module: mod, Pkg: st, Func: "Merge", Name: "smZeroCond", Kind: Expr, Sel: "if[0].cond", Type: "Bool", Params: nPar, Vars: nVar},
		Site{Module: mod, Pkg: st, Func: "Merge", Name: "smZeroCloses", Kind: Present, Sel: "if[0].body", Text: "sender.Close(nil)"},
		textSite(mod, st, "Merge", "smWgAdd", "call[wg.Add][0].arg[0]"),
		Site{Module: mod, Pkg: st, Func: "Merge", Name: "smSpawnCond", Kind: Expr, Sel: "for[0].cond", Type: "Bool",
			Params: []Param{{"i", "Int"}, {"n", "Int"}}, Vars: map[string]string{"len(in)": "n", "i": "i"}},
		deferList(mod, st, "Merge", "smDefers", gbody),
		Site{Module: mod, Pkg: st, Func: "Merge", Name: "smLastCond", Kind: Expr, Sel: gbody + "/funclit[0].body/if[0].cond", Type: "Bool",
			Params: []Param{{"nDoneNew", "Int"}, {"n", "Int"}, {"closeOnce", "Int"}},
			Vars: map[string]string{"int(atomic.AddUint32(&nDone,1))": "nDoneNew", "len(in)": "n", "atomic.LoadUint32(&closeOnce)": "closeOnce"}},
		Site{Module: mod, Pkg: st, Func: "Merge", Name: "smLastCloses", Kind: Present, Sel: gbody + "/funclit[0].body/if[0].body", Text: "sender.Close(nil)"},
		textSite(mod, st, "Merge", "smNextRecv", loop+"/call[in[i].Next][0]"),
		textSite(mod, st, "Merge", "smEndCond", loop+"/if[0].cond"),
		Site{Module: mod, Pkg: st, Func: "Merge", Name: "smEndReturns", Kind: Present, Sel: loop + "/if[0].body", Text: "return"},
		textSite(mod, st, "Merge", "smErrCond", loop+"/if[1].cond"),
		Site{Module: mod, Pkg: st, Func: "Merge", Name: "smErrReturns", Kind: Present, Sel: loop + "/if[1].body", Text: "return"},
		textSite(mod, st, "Merge", "smCasCond", loop+"/if[2].cond"),
		Site{Module: mod, Pkg: st, Func: "Merge", Name: "smWinStmts", Kind: StmtList, Sel: loop + "/if[2].body"},
		textSite(mod, st, "Merge", "smSendCall", loop+"/call[sender.Send][0]"),
		textSite(mod, st, "Merge", "smSendErrCond", loop+"/if[3].cond"),
		Site{Module: mod, Pkg: st, Func: "Merge", Name: "smSendErrReturns", Kind: Present, Sel: loop + "/if[3].body", Text: "return"},
		Site{Module: mod, Pkg: st, Func: "Merge", Name: "smCancelStmts", Kind: StmtList, Sel: "return[0].result[0]/funclit[0].body"},
		Site{Module: mod, Pkg: st, Func: "mergeStream.Close", Name: "smCloseStmts", Kind: StmtList},
		Site{Module: mod, Pkg: st, Func: "mergeStream.Next", Name: "smNextStmts", Kind: StmtList},
		// the Pipe the merged stream is built on
		Site{Module: mod, Pkg: st, Func: "PipeSender.Send", Name: "pipeSendArms", Kind: Select, Sel: "select[0]"},
		Site{Module: mod, Pkg: st, Func: "pipeStream.Next", Name: "pipeNextArms", Kind: Select, Sel: "select[0]"},
		Site{Module: mod, Pkg: st, Func: "PipeSender.Close", Name: "pipeSenderCloseStmts", Kind: StmtList},
		Site{Module: mod, Pkg: st, Func: "pipeStream.Close", Name: "pipeStreamCloseStmts", Kind: StmtList},
	)
	// where the context handed to the inputs and to Send comes from, and who can end it
	register(ctxOriginSites(mod, st, "Merge", "smCtx", "ctx", "cancel")...)
}
